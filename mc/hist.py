"""HIST engine: statements over a world of live tensors, with two interpreters -- the real
MyGrad (`Impl`) and NumPy itself on shadow arrays (`Model`).  Used by C04 C05 C06 C07 C09 C13.

A statement is a plain tuple; creating statements carry the name of the slot they create, so a
history stays meaningful when statements are deleted from it (delta debugging).
"""
import operator

import numpy as np

H_STEP = 1e-20

# ------------------------------------------------------------------ value tables (dyadic rationals)
VALS = [0.5, -0.75, 1.25, -1.5, 1.75, 0.25, -0.375, 0.625, -1.125, 1.375, -0.875, 1.625, -0.625, 0.875]
WTS = [1.5, -0.5, 2.5, 0.75, -1.25, 1.75, -2.25, 0.375, 2.75, -1.75, 0.625, -0.875, 1.125, -2.5, 3.25, 0.125]
CONSTS = {"c0": 0.5, "c1": -1.25, "c2": 3.0, "s2": 2.0,
          "A2": np.array([1.5, -0.625]), "A21": np.array([[0.375], [-1.75]]), "A3": np.array([0.75, -1.375, 2.25])}


def make_leaf(shape, offset, seed, rest):
    """leaf array for an init entry (name, shape, offset, const, *options); options: 'F' (Fortran order),
    ('val', x) (every element x), ('dtype', name)"""
    v = leaf_values(shape, offset, seed)
    for o in rest:
        if isinstance(o, (tuple, list)) and o[0] == "val":
            v = np.full(shape, float(o[1]))
    for o in rest:
        if isinstance(o, (tuple, list)) and o[0] == "dtype":
            v = v.astype(o[1])
    if "F" in [o for o in rest if isinstance(o, str)]:
        v = np.asfortranarray(v)
    return np.array(v, copy=True, order="K")  # owns its memory


def leaf_values(shape, offset, seed=0):
    n = int(np.prod(shape)) if len(shape) else 1
    v = [VALS[(i + offset + seed) % len(VALS)] + 0.0625 * ((i + offset) // len(VALS)) for i in range(n)]
    return np.array(v, dtype=np.float64).reshape(shape)


def weights(shape, k):
    n = int(np.prod(shape)) if len(shape) else 1
    v = [WTS[(i * 3 + k * 5) % len(WTS)] + 0.03125 * k for i in range(n)]
    return np.array(v, dtype=np.float64).reshape(shape)


# ------------------------------------------------------------------ catalogues
def _mgeinsum(s):
    import mygrad as mg

    return lambda t: mg.einsum(s, t)


# name -> (code, fn_on_tensor, fn_on_array, applicable(shape))
VIEWS = {
    "all": ("{0}[...]", lambda t: t[...], lambda a: a[...], lambda s: True),
    "s1": ("{0}[1:]", lambda t: t[1:], lambda a: a[1:], lambda s: len(s) >= 1 and s[0] >= 2),
    "s_1": ("{0}[:-1]", lambda t: t[:-1], lambda a: a[:-1], lambda s: len(s) >= 1 and s[0] >= 2),
    "rev": ("{0}[::-1]", lambda t: t[::-1], lambda a: a[::-1], lambda s: len(s) >= 1 and s[0] >= 2),
    "st2": ("{0}[::2]", lambda t: t[::2], lambda a: a[::2], lambda s: len(s) >= 1 and s[0] >= 3),
    "i0": ("{0}[0]", lambda t: t[0], lambda a: a[0], lambda s: len(s) >= 1 and s[0] >= 1),
    "i_1": ("{0}[-1:]", lambda t: t[-1:], lambda a: a[-1:], lambda s: len(s) >= 1 and s[0] >= 2),
    "c2": ("{0}[:, :2]", lambda t: t[:, :2], lambda a: a[:, :2], lambda s: len(s) == 2 and s[1] >= 3),
    "c1": ("{0}[:, 1]", lambda t: t[:, 1], lambda a: a[:, 1], lambda s: len(s) == 2 and s[1] >= 2),
    "na": ("{0}[..., None]", lambda t: t[..., None], lambda a: a[..., None], lambda s: len(s) <= 1),
    "T": ("{0}.T", lambda t: t.T, lambda a: a.T, lambda s: len(s) == 2),
    "flat": ("{0}.reshape(-1)", lambda t: t.reshape(-1), lambda a: a.reshape(-1), lambda s: len(s) == 2),
    "r22": ("{0}.reshape(2, 2)", lambda t: t.reshape(2, 2), lambda a: a.reshape(2, 2), lambda s: s == (4,)),
    "r32": ("{0}.reshape(3, 2)", lambda t: t.reshape(3, 2), lambda a: a.reshape(3, 2), lambda s: s == (2, 3)),
    "rav": ("{0}.ravel()", lambda t: t.ravel(), lambda a: a.ravel(), lambda s: len(s) == 2),
    "sw": ("{0}.swapaxes(0, 1)", lambda t: t.swapaxes(0, 1), lambda a: a.swapaxes(0, 1), lambda s: len(s) == 2),
    "dg": (
        "mg.einsum('ii->i', {0})",
        lambda t: _mgeinsum("ii->i")(t),
        lambda a: np.einsum("ii->i", a),
        lambda s: len(s) == 2 and s[0] == s[1],
    ),
    "rsF": ("mg.reshape({0}, {0}.shape[::-1] if {0}.ndim == 2 else (-1, 1), constant=False)",
            lambda t: __import__("mygrad").reshape(t, t.shape[::-1] if t.ndim == 2 else (-1, 1), constant=False),
            lambda a: a.reshape(a.shape[::-1] if a.ndim == 2 else (-1, 1)), lambda s: len(s) in (1, 2)),
    "rsT": ("mg.reshape({0}, (-1,), constant=True)", lambda t: __import__("mygrad").reshape(t, (-1,), constant=True), lambda a: a.reshape(-1), lambda s: len(s) >= 1),
    "sq": ("{0}.squeeze()", lambda t: t.squeeze(), lambda a: a.squeeze(), lambda s: 1 in s),
}

# non-view unary ops: name -> (code, fn_tensor, fn_array(complex-safe), applicable)
OPS1 = {
    "pos": ("+{0}", lambda t: +t, lambda a: +a, lambda s: True),
    "mul2": ("{0} * 2.0", lambda t: t * 2.0, lambda a: a * 2.0, lambda s: True),
    "neg": ("-{0}", lambda t: -t, lambda a: -a, lambda s: True),
    "adv": ("{0}[[1, 0]]", lambda t: t[[1, 0]], lambda a: a[[1, 0]], lambda s: len(s) >= 1 and s[0] >= 2),
    "advr": ("{0}[[0, 0]]", lambda t: t[[0, 0]], lambda a: a[[0, 0]], lambda s: len(s) >= 1 and s[0] >= 1),
    "sq2": ("{0} ** 2", lambda t: t**2, lambda a: a * a, lambda s: True),
    "exp": ("mg.exp({0})", lambda t: __import__("mygrad").exp(t), lambda a: np.exp(a), lambda s: True),
    "cube": ("{0} ** 3", lambda t: t**3, lambda a: a**3, lambda s: True),
    "mean_1": ("{0}.mean(axis=-1)", lambda t: t.mean(axis=-1), lambda a: a.mean(axis=-1), lambda s: len(s) >= 1),
    "maxall": ("{0}.max()", lambda t: t.max(), lambda a: a.reshape(-1)[np.argmax(a.real)], lambda s: len(s) >= 1),
    "minall": ("{0}.min()", lambda t: t.min(), lambda a: a.reshape(-1)[np.argmin(a.real)], lambda s: len(s) >= 1),
    "max0": ("{0}.max(axis=0)", lambda t: t.max(axis=0), lambda a: np.take_along_axis(a, np.argmax(a.real, axis=0)[None], 0)[0], lambda s: len(s) >= 1),
    "mseq3": ("mg.multiply_sequence({0}, {0}, {0})", lambda t: __import__("mygrad").multiply_sequence(t, t, t), lambda a: a * a * a, lambda s: True),
    "mseq4": ("mg.multiply_sequence({0}, {0}, {0}, {0})", lambda t: __import__("mygrad").multiply_sequence(t, t, t, t), lambda a: a * a * a * a, lambda s: True),
    "aseq3": ("mg.add_sequence({0}, {0}, {0})", lambda t: __import__("mygrad").add_sequence(t, t, t), lambda a: a + a + a, lambda s: True),
    "viaview": ("{0}[:1] * 2.0", lambda t: t[:1] * 2.0, lambda a: a[:1] * 2.0, lambda s: len(s) >= 1),
    "sumc": ("mg.sum({0}, constant=True)", lambda t: __import__("mygrad").sum(t, constant=True), lambda a: np.asarray(a.sum()), lambda s: True),
    # ops fed the same tensor more than once (per-op caches keyed by operand identity; placeholders after an in-place update)
    "einxx": ("mg.einsum('...,...->...', {0}, {0})", lambda t: __import__("mygrad").einsum("...,...->...", t, t), lambda a: a * a, lambda s: True),
    "einxx_r": ("mg.einsum('...,...->', {0}, {0})", lambda t: __import__("mygrad").einsum("...,...->", t, t), lambda a: (a * a).sum(), lambda s: True),
    "catxx": ("mg.concatenate([{0}, {0}])", lambda t: __import__("mygrad").concatenate([t, t]), lambda a: np.concatenate([a, a]), lambda s: len(s) >= 1),
    "matxx": ("mg.matmul({0}, {0})", lambda t: __import__("mygrad").matmul(t, t), lambda a: (a * a).sum(), lambda s: len(s) == 1),
    "pos32": ("mg.positive({0}, dtype=np.float32)", lambda t: __import__("mygrad").positive(t, dtype=np.float32), lambda a: +a, lambda s: True),
    "sum": ("{0}.sum()", lambda t: t.sum(), lambda a: a.sum(), lambda s: True),
    "sum0": (
        "{0}.sum(axis=0, keepdims=True)",
        lambda t: t.sum(axis=0, keepdims=True),
        lambda a: a.sum(axis=0, keepdims=True),
        lambda s: len(s) >= 1,
    ),
}

def _mg(name):
    return lambda *a, **k: getattr(__import__("mygrad"), name)(*a, **k)


def _cmax(x, y):
    return np.where(np.real(x) > np.real(y), x, y)


def _cmin(x, y):
    return np.where(np.real(x) < np.real(y), x, y)


# name -> (code, fn on tensors, fn on (possibly complex) arrays)
OPS2 = {
    "add": ("{0} + {1}", operator.add, operator.add),
    "sub": ("{0} - {1}", operator.sub, operator.sub),
    "mul": ("{0} * {1}", operator.mul, operator.mul),
    "div": ("{0} / {1}", operator.truediv, operator.truediv),
    "pow": ("{0} ** {1}", operator.pow, operator.pow),
    "addw": ("mg.add({0}, {1}, where=alt_mask(np.broadcast_shapes(np.shape({0}), np.shape({1}))), out=np.zeros(np.broadcast_shapes(np.shape({0}), np.shape({1}))))",
             lambda x, y: _mg("add")(x, y, where=alt_mask(np.broadcast_shapes(np.shape(x), np.shape(y))), out=np.zeros(np.broadcast_shapes(np.shape(x), np.shape(y)))),
             lambda x, y: np.where(alt_mask(np.broadcast_shapes(np.shape(x), np.shape(y))), x + y, 0.0)),
    "subw": ("mg.subtract({0}, {1}, where=alt_mask(..., 1), out=np.zeros(...))",
             lambda x, y: _mg("subtract")(x, y, where=alt_mask(np.broadcast_shapes(np.shape(x), np.shape(y)), 1), out=np.zeros(np.broadcast_shapes(np.shape(x), np.shape(y)))),
             lambda x, y: np.where(alt_mask(np.broadcast_shapes(np.shape(x), np.shape(y)), 1), x - y, 0.0)),
    "mseq_xyx": ("mg.multiply_sequence({0}, {1}, {0})", lambda x, y: _mg("multiply_sequence")(x, y, x), lambda x, y: x * y * x),
    "aseq_xyx": ("mg.add_sequence({0}, {1}, {0})", lambda x, y: _mg("add_sequence")(x, y, x), lambda x, y: x + y + x),
    # ufunc calls whose result is narrower than their operands (explicit dtype=): the gradient flows back into wider tensors
    "add32": ("mg.add({0}, {1}, dtype=np.float32)", lambda x, y: _mg("add")(x, y, dtype=np.float32), operator.add),
    "sub16": ("mg.subtract({0}, {1}, dtype=np.float16)", lambda x, y: _mg("subtract")(x, y, dtype=np.float16), operator.sub),
    "matmul": ("{0} @ {1}", operator.matmul, operator.matmul),
    "max": ("mg.maximum({0}, {1})", _mg("maximum"), _cmax),
    "min": ("mg.minimum({0}, {1})", _mg("minimum"), _cmin),
    "cat": ("mg.concatenate([{0}, {1}])", lambda x, y: _mg("concatenate")([x, y]), lambda x, y: np.concatenate([x, y])),
    "where": ("mg.where(alt_mask(np.broadcast_shapes(np.shape({0}), np.shape({1}))), {0}, {1})",
              lambda x, y: _mg("where")(alt_mask(np.broadcast_shapes(np.shape(x), np.shape(y))), x, y),
              lambda x, y: np.where(alt_mask(np.broadcast_shapes(np.shape(x), np.shape(y))), x, y)),
}

# set-item index catalogue: name -> (code, index object factory, applicable(shape))
INDICES = {
    "all": ("...", lambda: ..., lambda s: True),
    "s1": ("1:", lambda: slice(1, None), lambda s: len(s) >= 1 and s[0] >= 2),
    "i0": ("0", lambda: 0, lambda s: len(s) >= 1),
    "rev": ("::-1", lambda: slice(None, None, -1), lambda s: len(s) >= 1 and s[0] >= 2),
    "i_1": ("-1", lambda: -1, lambda s: len(s) >= 1 and s[0] >= 2),
    "st2": ("::2", lambda: slice(None, None, 2), lambda s: len(s) >= 1 and s[0] >= 3),
    "c0": (":, 0", lambda: (slice(None), 0), lambda s: len(s) == 2),
    "adv": ("[1, 0]", lambda: [1, 0], lambda s: len(s) >= 1 and s[0] >= 2),
    "advr": ("[0, 0]", lambda: [0, 0], lambda s: len(s) >= 1 and s[0] >= 1),
    "advr3": ("[1, 0, 1]", lambda: [1, 0, 1], lambda s: len(s) >= 1 and s[0] >= 2),
    "bool": ("{m}", None, lambda s: len(s) >= 1),  # alternating mask of target's shape
    "advrT": ("mg.tensor([0, 0, 1])", lambda: [0, 0, 1], lambda s: len(s) >= 1 and s[0] >= 2),  # an integer *Tensor* as index, with a repeat
}


def alt_mask(shape, phase=0):
    """boolean masks: alternating (phase 0/1), all False ("F"), all True ("T")"""
    n = int(np.prod(shape)) if len(shape) else 1
    if phase == "F":
        return np.zeros(shape, dtype=bool)
    if phase == "T":
        return np.ones(shape, dtype=bool)
    if phase == "B":  # a lower-dimensional mask that has to broadcast against the target (trailing axis only)
        k = shape[-1] if len(shape) else 1
        return (np.arange(k) % 2 == 0) if len(shape) else np.array(True)
    return (np.arange(n).reshape(shape) + phase) % 2 == 0


def ub(a):
    """ultimate NumPy base of an array (the array itself if it owns its memory)"""
    while a.base is not None:
        a = a.base
    return a


# ------------------------------------------------------------------ the NumPy model
class Model:
    """Reference semantics: the same statements on plain ndarrays (`dtype` float64 for value /
    aliasing comparisons, complex128 for complex-step derivatives), plus tag arrays that ride the
    same view operations so that 'element k of the owner' is addressable through any view."""

    def __init__(self, init, dtype=np.float64, inject=None, seed=0):
        # init: list of (name, shape, offset, const)
        self.dtype = dtype
        self.a = {}  # name -> shadow array
        self.tag = {}  # name -> int64 tag array (same view structure)
        self.fam = {}  # name -> family id (name of owner slot)
        self.const = {}
        self.order = []  # live slot names in creation order
        self.version = {}  # family -> time of last in-place write (-1 = initial)
        self.created = {}  # name -> time
        self.time = -1
        self.inject = inject  # (owner name, flat index, time)
        self._fam_ub = {}  # family -> ultimate base object (strong ref)
        self.anc = {}  # (family, version) -> set of ancestor (family, version) nodes (liberal dataflow)
        for name, shape, offset, const, *rest in init:
            arr = make_leaf(shape, offset, seed, rest).astype(dtype)  # the model always computes in float64 / complex128
            self._new_owner(name, arr, const)
        self._maybe_inject()

    # -- bookkeeping
    def cur(self, name):
        f = self.fam[name]
        return (f, self.version[f])

    def _anc_of(self, inputs):
        out = set()
        for i in inputs:
            if self.const.get(i, True):
                continue
            c = self.cur(i)
            out.add(c)
            out |= self.anc.get(c, set())
        return out

    def reaches(self, name, target):
        """liberal structural dependency: does `target`'s current value depend on `name`'s family?"""
        a, b = self.cur(name), self.cur(target)
        return a == b or a in self.anc.get(b, ())

    def _new_owner(self, name, arr, const, inputs=()):
        anc = self._anc_of(inputs)
        self.a[name] = arr
        t = np.empty_like(arr, dtype=np.int64)
        t[...] = np.arange(arr.size).reshape(arr.shape)
        self.tag[name] = t
        self.fam[name] = name
        self._fam_ub[name] = ub(arr)
        self.const[name] = const
        self.order.append(name)
        self.version[name] = self.time
        self.created[name] = self.time
        self.anc[(name, self.time)] = anc

    def _new_member(self, name, arr, tag, src, const):
        self.a[name] = arr
        self.tag[name] = tag
        self.fam[name] = self.fam[src]
        self.const[name] = const
        self.order.append(name)
        self.created[name] = self.time

    def _maybe_inject(self):
        if self.inject is not None and self.inject[2] == self.time:
            name, k, _ = self.inject
            a = self.a[name]
            a[np.unravel_index(k, a.shape)] += 1j * H_STEP

    def members(self, fam):
        return [n for n in self.order if self.fam[n] == fam]

    def value_of(self, val):
        kind, v = val
        if kind == "c":
            return CONSTS[v]
        return self.a[v]

    def shape(self, n):
        return self.a[n].shape

    # -- statements
    def apply(self, st):
        self.time += 1
        k = st[0]
        getattr(self, "_" + k)(*st[1:])
        self._maybe_inject()

    def _view(self, out, src, vname):
        f = VIEWS[vname][2]
        r = np.asarray(f(self.a[src]))
        const = {"rsF": False, "rsT": True}.get(vname, self.const[src])
        if not np.issubdtype(r.dtype, np.floating) and not np.issubdtype(r.dtype, np.complexfloating):
            const = True
        if ub(r) is self._fam_ub[self.fam[src]]:
            self._new_member(out, r, f(self.tag[src]), src, const)
        else:
            self._new_owner(out, r, const, (src,))

    def _op1(self, out, src, oname):
        r = np.asarray(OPS1[oname][2](self.a[src]))
        if oname == "sumc":  # constant=True: a constant result; it transmits nothing
            if self.dtype == np.complex128:
                r = np.asarray(r.real + 0j)
            self._new_owner(out, r, True, ())
            return
        self._new_owner(out, r, self.const[src], (src,))

    def _op2(self, out, a, b, oname):
        x = self.value_of(a)
        y = self.value_of(b)
        r = np.asarray(OPS2[oname][2](x, y))
        ca = self.const[a[1]] if a[0] == "t" else True
        cb = self.const[b[1]] if b[0] == "t" else True
        self._new_owner(out, r, ca and cb, [v[1] for v in (a, b) if v[0] == 't'])

    def index_obj(self, tgt, iname):
        if iname == "bool":
            return alt_mask(self.a[tgt].shape)
        return INDICES[iname][1]()

    def _touch(self, tgt, inputs=()):
        old = self.cur(tgt)
        anc = {old} | self.anc.get(old, set()) | self._anc_of(inputs)
        self.version[self.fam[tgt]] = self.time
        self.anc[self.cur(tgt)] = anc

    def _set(self, tgt, iname, val):
        v = self.value_of(val)
        if isinstance(v, np.ndarray) and np.shares_memory(v, self.a[tgt]):
            v = v.copy()
        self.a[tgt][self.index_obj(tgt, iname)] = v
        self._touch(tgt, [val[1]] if val[0] == "t" else ())

    def _iop(self, tgt, oname, val):
        v = self.value_of(val) if val is not None else None
        if isinstance(v, np.ndarray) and np.shares_memory(v, self.a[tgt]):
            v = v.copy()
        a = self.a[tgt]
        if oname == "iadd":
            a += v
        elif oname == "isub":
            a -= v
        elif oname == "imul":
            a *= v
        elif oname == "ipow2":
            a *= a.copy()
        else:
            raise KeyError(oname)
        self._touch(tgt, [val[1]] if val is not None and val[0] == "t" else ())

    def _out(self, tgt, uf, a, b, mask):
        x = self.value_of(a)
        y = self.value_of(b)
        f = {"add": np.add, "multiply": np.multiply, "subtract": np.subtract, "positive": lambda p, q: +p}[uf]
        mask = _phase(mask)
        if mask is None:
            r = f(x, y)
            self.a[tgt][...] = r
        else:
            m = np.broadcast_to(alt_mask(self.a[tgt].shape, mask), self.a[tgt].shape)
            r = f(x, y)
            r = np.broadcast_to(r, self.a[tgt].shape)
            self.a[tgt][m] = r[m]
        self._touch(tgt, [v[1] for v in (a, b) if v[0] == "t"])

    def _setshape(self, tgt, shape):
        import warnings

        with warnings.catch_warnings():
            warnings.simplefilter("ignore")
            self.a[tgt].shape = shape
            self.tag[tgt].shape = shape

    def _badshape(self, tgt, shape):
        """a shape assignment NumPy rejects (wrong size, or not expressible over the existing strides): nothing changes"""
        import warnings

        v = self.a[tgt].view()
        try:
            with warnings.catch_warnings():
                warnings.simplefilter("ignore")
                v.shape = shape
        except (AttributeError, ValueError):
            return
        raise AssertionError("harness: NumPy accepts .shape = %r here" % (shape,))

    # graph-clearing statements: for the NumPy model they only matter to the complex-step runs,
    # where tensors whose creator was cleared become leaves for *later* statements (detach).
    # `self.detach` = {time: [slot names]} is observed on the implementation (walk of the real graph).
    detach = None

    def _do_detach(self):
        names = (self.detach or {}).get(self.time, ())
        if self.dtype != np.complex128 or self.inject is None:
            return
        pf = self.fam.get(self.inject[0])
        for n in names:
            if n in self.a and self.fam[n] != pf:
                self.a[n].imag = 0.0

    def _backward(self, name):
        self._do_detach()

    def _clear(self, name):
        self._do_detach()

    def _null_grad(self, name):
        pass

    def _peek(self, name):
        pass

    def _failop(self, name):
        pass  # a statement that raises changes nothing

    def _failset(self, name):
        pass

    raw_ok = None  # {time: bool}: whether the caller's direct write to .data went through (observed on the implementation)

    def _rawwrite(self, name):
        if (self.raw_ok or {}).get(self.time, False):
            self.a[name][...] += 0.25
            self._touch(name)

    def _outc(self, tgt, const):
        self.a[tgt] *= 2.0
        self._touch(tgt)

    def _del(self, name):
        self.order.remove(name)
        for d in (self.a, self.tag, self.const, self.created):
            d.pop(name, None)
        # the family id stays (other members may live on)

    # -- observations
    def digest(self):
        out = []
        for n in self.order:
            a = self.a[n]
            out.append((a.shape, a.real.tobytes(), self.order.index(self.fam[n]) if self.fam[n] in self.order else -1,
                        self.tag[n].tobytes(), self.const[n]))
        return hash(tuple(out))

    def owner(self, name):
        """first live member of the family in creation order (None if `name` itself is it)"""
        for n in self.order:
            if self.fam[n] == self.fam[name]:
                return n
        return name


def _phase(mask):
    """mask phases 't0', 't1', ... denote the same mask as 0, 1, ... handed to the ufunc as a tensor"""
    return int(mask[1:]) if isinstance(mask, str) and mask[:1] == "t" and mask[1:].isdigit() else mask


class _Sub(np.ndarray):
    pass


# ------------------------------------------------------------------ the implementation side
class Impl:
    def __init__(self, init, seed=0):
        import mygrad as mg

        self.mg = mg
        self.t = {}
        self.order = []
        for name, shape, offset, const, *rest in init:
            arr = make_leaf(shape, offset, seed, rest)
            if "sub" in [o for o in rest if isinstance(o, str)]:
                # memory owned by an ndarray-subclass instance (as with np.memmap / np.matrix), wrapped without copying
                self.t[name] = mg.tensor(arr.view(_Sub).copy(), constant=const, copy=False)
            elif "ro" in [o for o in rest if isinstance(o, str)]:
                arr.flags.writeable = False  # natively read-only memory, wrapped without copying
                self.t[name] = mg.tensor(arr, constant=const, copy=False)
            else:
                self.t[name] = mg.tensor(arr, constant=const)
            if "goff" in [o for o in rest if isinstance(o, str)]:
                self.guard_off = True
            self.order.append(name)

    def value_of(self, val):
        kind, v = val
        if kind == "c":
            return CONSTS[v]
        return self.t[v]

    guard_off = False  # worlds in which every statement runs inside `with mg.mem_guard_off` (values and sharing must be unaffected)

    def apply(self, st):
        if self.guard_off:
            with self.mg.mem_guard_off:
                return getattr(self, "_" + st[0])(*st[1:])
        return getattr(self, "_" + st[0])(*st[1:])

    def _new(self, out, t):
        self.t[out] = t
        self.order.append(out)

    def _view(self, out, src, vname):
        self._new(out, VIEWS[vname][1](self.t[src]))

    def _op1(self, out, src, oname):
        self._new(out, OPS1[oname][1](self.t[src]))

    def _op2(self, out, a, b, oname):
        self._new(out, OPS2[oname][1](self.value_of(a), self.value_of(b)))

    def index_obj(self, tgt, iname):
        if iname == "bool":
            return alt_mask(self.t[tgt].shape)
        if iname == "advrT":
            return self.mg.tensor([0, 0, 1])
        return INDICES[iname][1]()

    def _set(self, tgt, iname, val):
        self.t[tgt][self.index_obj(tgt, iname)] = self.value_of(val)

    def _iop(self, tgt, oname, val):
        t = self.t[tgt]
        if oname == "iadd":
            t += self.value_of(val)
        elif oname == "isub":
            t -= self.value_of(val)
        elif oname == "imul":
            t *= self.value_of(val)
        elif oname == "ipow2":
            t **= 2
        self.t[tgt] = t  # identity is compared by the oracle

    def _out(self, tgt, uf, a, b, mask):
        mg = self.mg
        x, y = self.value_of(a), self.value_of(b)
        args = (x,) if uf == "positive" else (x, y)
        if mask is None:
            r = getattr(mg, uf)(*args, out=self.t[tgt])
        else:
            m = alt_mask(self.t[tgt].shape, _phase(mask))
            if _phase(mask) != mask:
                m = mg.tensor(m)  # the mask handed over as a tensor
            r = getattr(np, uf)(*args, out=self.t[tgt], where=m)
        self.ret = r

    def _setshape(self, tgt, shape):
        self.t[tgt].shape = shape

    def _badshape(self, tgt, shape):
        try:
            self.t[tgt].shape = shape
        except Exception as e:
            del e
            return
        raise RuntimeError("NumPy rejects `.shape = %r` on this array, MyGrad accepted it (shape is now %r)" % (tuple(shape), self.t[tgt].shape))

    def _del(self, name):
        self.order.remove(name)
        del self.t[name]

    def upstream_slots(self, name):
        """names of live slots whose tensor object is reachable from `name` through
        creator.variables in the implementation's graph (what clear_graph will visit)"""
        stack = [self.t[name]]
        seen = set()
        while stack:
            u = stack.pop()
            if id(u) in seen:
                continue
            seen.add(id(u))
            c = u._creator
            if c is not None:
                stack.extend(c.variables)
        del stack
        return [n for n in self.order if id(self.t[n]) in seen]

    def _backward(self, name):
        self.detached = self.upstream_slots(name)
        self.t[name].backward()

    def _clear(self, name):
        self.detached = self.upstream_slots(name)
        self.t[name].clear_graph()

    def _null_grad(self, name):
        self.t[name].null_grad()

    def _peek(self, name):
        """re-use through a view that is dropped at once"""
        self.t[name][:1]

    def _failop(self, name):
        """a new operation on the tensor that raises (shape mismatch)"""
        try:
            self.t[name] + np.zeros(7)
        except ValueError as e:
            del e
            return
        raise RuntimeError("harness: the failing op did not raise")

    def _failset(self, name):
        """an in-place update of the tensor that raises (shape mismatch)"""
        try:
            self.t[name][...] = np.zeros(7)
        except ValueError as e:
            del e
            return
        raise RuntimeError("harness: the failing update did not raise")

    def _rawwrite(self, name):
        """the caller writes into the tensor's array directly; the memory guard must refuse while a live graph uses it"""
        try:
            self.t[name].data[...] += 0.25
            self.raw_written = True
        except ValueError as e:
            del e
            self.raw_written = False

    def _outc(self, tgt, const):
        self.ret = self.mg.multiply(self.t[tgt], 2.0, out=self.t[tgt], constant=const)


# ------------------------------------------------------------------ rendering histories as scripts
def render_val(val):
    if val[0] != "c":
        return val[1]
    c = CONSTS[val[1]]
    return repr(c) if not isinstance(c, np.ndarray) else "np." + repr(c)


def render(st):
    k = st[0]
    if k == "view":
        return "%s = %s" % (st[1], VIEWS[st[3]][0].format(st[2]))
    if k == "op1":
        return "%s = %s" % (st[1], OPS1[st[3]][0].format(st[2]))
    if k == "op2":
        return "%s = %s" % (st[1], OPS2[st[4]][0].format(render_val(st[2]), render_val(st[3])))
    if k == "set":
        idx = INDICES[st[2]][0]
        if st[2] == "bool":
            idx = "alt_mask(%s.shape)" % st[1]
        return "%s[%s] = %s" % (st[1], idx, render_val(st[3]))
    if k == "iop":
        sym = {"iadd": "+=", "isub": "-=", "imul": "*=", "ipow2": "**="}[st[2]]
        return "%s %s %s" % (st[1], sym, "2" if st[2] == "ipow2" else render_val(st[3]))
    if k == "out":
        if st[5] is None:
            return "mg.%s(%s, out=%s)" % (st[2], render_val(st[3]) if st[2] == "positive" else "%s, %s" % (render_val(st[3]), render_val(st[4])), st[1])
        ops_ = render_val(st[3]) if st[2] == "positive" else "%s, %s" % (render_val(st[3]), render_val(st[4]))
        msk = "alt_mask(%s.shape, %r)" % (st[1], _phase(st[5]))
        return "np.%s(%s, out=%s, where=%s)" % (st[2], ops_, st[1], msk if _phase(st[5]) == st[5] else "mg.tensor(%s)" % msk)
    if k == "setshape":
        return "%s.shape = %r" % (st[1], tuple(st[2]))
    if k == "failop":
        return "try: %s + np.zeros(7)\nexcept ValueError: pass" % st[1]
    if k == "failset":
        return "try: %s[...] = np.zeros(7)\nexcept ValueError: pass" % st[1]
    if k == "badshape":
        return "try: %s.shape = %r  # NumPy rejects this\nexcept Exception: pass" % (st[1], tuple(st[2]))
    if k == "del":
        return "del %s" % st[1]
    if k == "backward":
        return "%s.backward()" % st[1]
    if k == "clear":
        return "%s.clear_graph()" % st[1]
    if k == "null_grad":
        return "%s.null_grad()" % st[1]
    if k == "peek":
        return "%s[:1]  # a view, dropped at once" % st[1]
    if k == "rawwrite":
        return "try: %s.data[...] += 0.25\nexcept ValueError: pass  # direct write by the caller" % st[1]
    if k == "outc":
        return "mg.multiply(%s, 2.0, out=%s, constant=%r)" % (st[1], st[1], st[2])
    return repr(st)


def script(init, history, seed=0, tail=""):
    lines = [
        "import numpy as np, mygrad as mg",
        "def alt_mask(shape, phase=0):",
        "    n = int(np.prod(shape)) if len(shape) else 1",
        "    if phase == 'F': return np.zeros(shape, dtype=bool)",
        "    if phase == 'T': return np.ones(shape, dtype=bool)",
        "    if phase == 'B': return (np.arange(shape[-1]) % 2 == 0) if len(shape) else np.array(True)",
        "    return (np.arange(n).reshape(shape) + phase) % 2 == 0",
    ]
    for name, shape, offset, const, *rest in init:
        val = "np.array(%s)" % np.array2string(np.ascontiguousarray(make_leaf(tuple(shape), offset, seed, rest)), separator=", ").replace("\n", "")
        if "F" in [o for o in rest if isinstance(o, str)]:
            val = "np.asfortranarray(%s)" % val
        for o in rest:
            if isinstance(o, (tuple, list)) and o[0] == "dtype":
                val = "%s.astype(%r)" % (val, o[1])
        lines.append("%s = mg.tensor(%s, constant=%r)" % (name, val, const))
    for st in history:
        lines.append(render(tuple(st)))
    return "\n".join(lines) + "\n" + tail


def tuplify(x):
    if isinstance(x, list):
        return tuple(tuplify(i) for i in x)
    return x


# ------------------------------------------------------------------ validity of a (shrunk) history
def defined_names(init, history):
    names = [i[0] for i in init]
    for st in history:
        if st[0] in ("view", "op1", "op2"):
            names.append(st[1])
    return names


def uses(st):
    k = st[0]
    u = []
    if k in ("view", "op1"):
        u.append(st[2])
    elif k == "op2":
        u += [v[1] for v in (st[2], st[3]) if v[0] == "t"]
    elif k == "set":
        u.append(st[1])
        if st[3][0] == "t":
            u.append(st[3][1])
    elif k == "iop":
        u.append(st[1])
        if st[3] is not None and st[3][0] == "t":
            u.append(st[3][1])
    elif k == "out":
        u.append(st[1])
        u += [v[1] for v in (st[3], st[4]) if v[0] == "t"]
    elif k in ("setshape", "badshape", "failop", "failset", "del", "backward", "clear", "null_grad", "reuse", "fail", "peek", "rawwrite", "outc"):
        u.append(st[1])
    return u


def well_formed(init, history):
    live = set(i[0] for i in init)
    for st in history:
        for u in uses(st):
            if u not in live:
                return False
        if st[0] in ("view", "op1", "op2"):
            live.add(st[1])
        if st[0] == "del":
            live.discard(st[1])
    return True


def ddmin(history, fails, init):
    """1-minimal sub-history (by statement deletion) that still fails; `fails(h)` replays h."""
    h = list(history)
    changed = True
    while changed:
        changed = False
        for i in range(len(h) - 1, -1, -1):
            cand = h[:i] + h[i + 1:]
            if not well_formed(init, cand):
                continue
            try:
                if fails(cand):
                    h = cand
                    changed = True
            except Exception:
                pass
    return h
