"""Shared runtime for all checks: repo selection, MyGrad state reset, parallel map,
violation/replay records.  Nothing in here knows about a particular property."""
import gc
import hashlib
import json
import multiprocessing as mp
import os
import sys
import time
import traceback
import warnings

VERIF = os.path.dirname(os.path.dirname(os.path.abspath(__file__)))
REPO = os.environ.get("VERIF_REPO", "/repo")


def setup_repo():
    """Make `import mygrad` resolve to $VERIF_REPO/src (default /repo/src, the editable install)."""
    src = os.path.join(REPO, "src")
    if src not in sys.path:
        sys.path.insert(0, src)
    warnings.filterwarnings("ignore")
    import numpy as np

    np.seterr(all="ignore")
    import mygrad  # noqa

    got = os.path.realpath(os.path.dirname(os.path.dirname(mygrad.__file__)))
    assert got == os.path.realpath(src), f"mygrad imported from {got}, expected {src}"
    gc.disable()
    gc.collect()
    gc.freeze()  # everything imported so far is permanent: later gc.collect() calls only scan new objects
    return mygrad


def seed():
    try:
        return int(os.environ.get("VERIF_SEED", "0"))
    except ValueError:
        return 0


_mods = None


def _modules():
    global _mods
    if _mods is None:
        import mygrad._utils.graph_tracking as _track
        import mygrad._utils.lock_management as _mem

        _mods = (_track, _mem)
    return _mods


def reset_mygrad():
    """Reset every piece of module-level state MyGrad has (like the repo's own
    `clear_all_mem_locking_state` fixture), so each execution starts from the same state."""
    _track, _mem = _modules()
    _mem._array_counter.clear()
    _mem._array_tracker.clear()
    _mem._views_waiting_for_unlock.clear()
    _track.TRACK_GRAPH = True
    _mem.MEM_GUARD = True
    for ctx in (_track.no_autodiff, _mem.mem_guard_off, _mem.mem_guard_on):
        ctx._depth = 0
        ctx._depth_tracker.clear()
        # `_depth` is a class attribute that instances shadow; remove shadowing
        ctx.__dict__.pop("_depth", None)
        type(ctx)._depth = 0


def lock_tables_empty():
    _track, _mem = _modules()
    return not _mem._array_counter and not _mem._array_tracker and not _mem._views_waiting_for_unlock


def exc_brief(e):
    """(type-name, first line of message) and nothing that could pin frames."""
    return (type(e).__name__, str(e).split("\n")[0][:160])


def stable_hash(obj) -> int:
    h = hashlib.blake2b(repr(obj).encode(), digest_size=8).digest()
    return int.from_bytes(h, "little")


class Acc:
    """Accumulator returned by every task and merged by the driver."""

    def __init__(self):
        self.n = {}  # named integer counters
        self.states = set()  # 64-bit digests of abstract states
        self.nontrivial = set()  # digests of non-trivial distinct cases
        self.outcomes = {}  # outcome label -> count
        self.violations = []  # list of dict (capped)
        self._groups = {}
        self.samples = []
        self.notes = set()
        self.capped = False

    def inc(self, k, v=1):
        self.n[k] = self.n.get(k, 0) + v

    def outcome(self, k, v=1):
        self.outcomes[k] = self.outcomes.get(k, 0) + v

    def violation(self, v, per_group=3, max_groups=40):
        """keep up to `per_group` raw violations per (failure kind, failing statement shape)"""
        f = v.get("failure") or ()
        try:
            st = f[1] if len(f) > 1 else ()
            key = (f[2] if len(f) > 2 else None, st[0] if st else None,
                   tuple(x for x in st[1:] if isinstance(x, str))[-2:] if st else ())
        except Exception:
            key = None
        g = self._groups.setdefault(key, 0) if (key in self._groups or len(self._groups) < max_groups) else None
        if g is not None and g < per_group:
            self._groups[key] = g + 1
            self.violations.append(v)
        else:
            self.inc("violations_dropped_by_cap")
        self.inc("violations_raw")

    def merge(self, o):
        for k, v in o.n.items():
            self.n[k] = self.n.get(k, 0) + v
        self.states |= o.states
        self.nontrivial |= o.nontrivial
        for k, v in o.outcomes.items():
            self.outcomes[k] = self.outcomes.get(k, 0) + v
        self.violations.extend(o.violations)
        if len(self.samples) < 8:
            self.samples.extend(o.samples[: 8 - len(self.samples)])
        self.notes |= o.notes
        self.capped = self.capped or o.capped


_TASK_FN = None


_POST = None  # set by the driver: finalises (minimises, matches known findings) a task's violations in the worker


def _run_one(task):
    try:
        acc = _TASK_FN(task)
        if _POST is not None and acc.violations:
            acc.violations = [_POST(v) for v in acc.violations]
        return acc
    except BaseException:  # a harness error is never a violation: surface it loudly
        a = Acc()
        a.n["harness_errors"] = 1
        a.notes.add("HARNESS-ERROR in task %r:\n%s" % (task, traceback.format_exc()[-3000:]))
        return a


def pmap(fn, tasks, procs=None, deadline=None):
    """Run fn(task)->Acc over tasks with a fork pool; merge.  `deadline` (epoch seconds) stops
    handing out work and marks the result as capped (never called exhaustive then)."""
    global _TASK_FN
    _TASK_FN = fn
    tasks = list(tasks)
    total = Acc()
    procs = procs or int(os.environ.get("VERIF_PROCS", "16"))
    if procs <= 1 or len(tasks) <= 1:
        for t in tasks:
            if deadline and time.time() > deadline:
                total.capped = True
                break
            total.merge(_run_one(t))
            total.inc("tasks_done")
        return total
    ctx = mp.get_context("fork")
    with ctx.Pool(min(procs, len(tasks)), maxtasksperchild=None) as pool:
        it = pool.imap_unordered(_run_one, tasks, chunksize=1)
        for acc in it:
            total.merge(acc)
            total.inc("tasks_done")
            if deadline and time.time() > deadline:
                total.capped = True
                pool.terminate()
                break
    return total


def save_json(path, obj):
    tmp = path + ".tmp%d" % os.getpid()
    with open(tmp, "w") as f:
        json.dump(obj, f, indent=1, default=_json_default)
    os.replace(tmp, path)


def _json_default(o):
    import numpy as np

    if isinstance(o, np.ndarray):
        return {"__nd__": o.tolist(), "dtype": str(o.dtype), "shape": list(o.shape)}
    if isinstance(o, (np.integer,)):
        return int(o)
    if isinstance(o, (np.floating,)):
        return float(o)
    if isinstance(o, (np.bool_,)):
        return bool(o)
    if isinstance(o, (set, frozenset)):
        return sorted(o, key=repr)
    if isinstance(o, tuple):
        return list(o)
    if isinstance(o, slice):
        return "slice(%r,%r,%r)" % (o.start, o.stop, o.step)
    if o is Ellipsis:
        return "..."
    if isinstance(o, type):
        return o.__name__
    if isinstance(o, complex):
        return [o.real, o.imag]
    return repr(o)
