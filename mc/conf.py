"""CONF engine: exhaustive product of small finite option/shape/value lattices for one entry point at a
time.  A harness supplies `cells()` (a deterministic generator of hashable cell descriptions) and
`check(cell) -> None | (kind, detail)` plus optional `nontrivial(cell)` and `outcome(cell)`."""
import itertools

from . import base


def make_plan(H, tier, seed, nchunks=48, **extra):
    def run_task(task):
        i, n = task
        acc = base.Acc()
        setup = getattr(H, "worker_setup", None)
        if setup:
            setup()
        aff = getattr(H, "affinity", None)
        for idx, cell in enumerate(H.cells(tier)):
            a = aff(cell) if aff else None
            if (idx if a is None else a) % n != i:
                continue
            base.reset_mygrad()
            try:
                f = H.check(cell)
            except Exception as e:  # an oracle that crashes is a harness error, not a violation
                import traceback

                acc.inc("harness_errors")
                acc.notes.add("HARNESS-ERROR in cell %r:\n%s" % (cell, traceback.format_exc()[-1500:]))
                del e
                continue
            acc.inc("evaluations")
            steps = getattr(H, "steps", None)
            if steps:
                acc.inc("transitions", steps(cell))
                acc.inc("traces")
            if f is not None and f[0] == "skip":
                acc.outcome("skipped:" + f[1])
                continue
            acc.states.add(base.stable_hash(cell))
            if getattr(H, "nontrivial", lambda c: True)(cell):
                acc.nontrivial.add(base.stable_hash(cell))
            if f is not None:
                acc.violation({"case": {"cell": cell}, "failure": (0, ("cell",) + tuple(str(x) for x in cell[:2])) + tuple(f)})
                acc.outcome("fail:" + f[0])
            else:
                acc.outcome(getattr(H, "outcome", lambda c: "ok")(cell))
            if len(acc.samples) < 1 and idx % 997 == 3:
                acc.samples.append(repr(cell))
        return acc

    d = dict(tasks=[(i, nchunks) for i in range(nchunks)], run=run_task)
    d.update(extra)
    return d


def replay_cell(H, case):
    def tup(x):
        return tuple(tup(i) for i in x) if isinstance(x, list) else x

    setup = getattr(H, "worker_setup", None)
    if setup:
        setup()
    base.reset_mygrad()
    f = H.check(tup(case["cell"]))
    if f is not None and f[0] != "skip":
        return [dict(failure=f)]
    return []


def finalize_cell(H, v):
    r = replay_cell(H, v["case"])
    if not r:
        return None
    f = r[0]["failure"]
    sig = getattr(H, "signature", lambda cell, f: base.stable_hash((cell[:2], f[0])))(v["case"]["cell"], f)
    return dict(case=v["case"], failure=dict(kind=f[0], detail=f[1], cell=v["case"]["cell"]),
                script=getattr(H, "script", lambda c, f: "# cell %r\n# %s: %s\n" % (c, f[0], f[1]))(v["case"]["cell"], f),
                signature=sig)
