"""Complex-step reference gradients for histories (DESIGN 2.3).

The shadow program is re-executed on complex128 arrays with an i*h perturbation injected into one
element of a memory family's owner at the family's version time (its last in-place write);
Im(L)/h is dL/d(that element) to machine precision.  A member's expected gradient is the owner's
gradient read through the member's tag array (which went through the same NumPy view ops)."""
import numpy as np

from .hist import H_STEP, Model, weights


def terminal_all_model(m, names=None):
    """L = sum_i (w_i * t_i).sum() over the live slots (the same formula is built with MyGrad)"""
    L = 0.0
    for i, n in enumerate(m.order):
        if names is not None and n not in names:
            continue
        L = L + (weights(m.a[n].shape, i) * m.a[n]).sum()
    return L


def terminal_all_impl(impl, names=None):
    L = None
    for i, n in enumerate(impl.order):
        if names is not None and n not in names:
            continue
        term = (weights(impl.t[n].shape, i) * impl.t[n]).sum()
        L = term if L is None else L + term
    return L


def run_model(init, history, seed, inject=None, dtype=np.complex128, detach=None, raw_ok=None):
    m = Model(init, dtype, inject=inject, seed=seed)
    m.detach = detach
    m.raw_ok = raw_ok
    for st in history:
        m.apply(tuple(st))
    return m


def expected_grads(init, history, seed, terminal=terminal_all_model, upto=None, detach=None, raw_ok=None):
    """-> (model, {name: expected grad}) for every live slot.  `upto`: number of statements of the
    history that the recorded computation consists of (default all)."""
    h = history if upto is None else history[:upto]
    m0 = run_model(init, h, seed, detach=detach, raw_ok=raw_ok)
    exp = {}
    G = {}
    for fam in sorted(set(m0.fam[n] for n in m0.order), key=str):
        members = m0.members(fam)
        owner = members[0]
        # the owner's array spans the family's memory only if it is the creating slot; otherwise
        # (creator deleted) fall back to probing through the first live member
        n_el = m0.a[owner].size
        tau = max(m0.version[fam], m0.created[owner])
        g = np.zeros(n_el)
        for k in range(n_el):
            m = run_model(init, h, seed, inject=(owner, k, tau), detach=detach, raw_ok=raw_ok)
            g[k] = np.imag(terminal(m)) / H_STEP
        G[fam] = (owner, g)
    for n in m0.order:
        owner, g = G[m0.fam[n]]
        if owner == m0.fam[n]:
            exp[n] = g[m0.tag[n]]
        else:
            # tags are relative to the deleted creator; translate through the owner's own tags
            lut = {int(t): i for i, t in enumerate(m0.tag[owner].reshape(-1))}
            tn = m0.tag[n]
            e = np.full(tn.shape, np.nan)
            for idx in np.ndindex(tn.shape):
                j = lut.get(int(tn[idx]))
                if j is not None:
                    e[idx] = g[j]
            exp[n] = e
    return m0, exp


def close(g, e, rtol=1e-9):
    g = np.asarray(g, dtype=np.float64)
    e = np.asarray(e, dtype=np.float64)
    if g.shape != e.shape:
        return False
    mask = ~np.isnan(e)
    return bool(np.all(np.abs(g[mask] - e[mask]) <= rtol * np.maximum(1.0, np.abs(e[mask]))))
