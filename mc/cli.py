"""./check <Cxx> [--tier quick|thorough] [--replay file]

Drives one harness: plan -> exhaustive enumeration on all cores -> triage of raw violations
(minimise, dedupe, confirm by replay, match against known_findings.json) -> evidence file."""
import argparse
import importlib
import json
import os
import subprocess
import sys
import time

from . import base


def load_findings(prop):
    path = os.path.join(base.VERIF, "known_findings.json")
    if not os.path.exists(path):
        return []
    with open(path) as f:
        data = json.load(f)
    return [e for e in data.get("findings", []) if e.get("property") == prop and e.get("status") == "open"]


def main(argv=None):
    ap = argparse.ArgumentParser()
    ap.add_argument("prop")
    ap.add_argument("--tier", default=os.environ.get("VERIF_TIER", "quick"), choices=["quick", "thorough"])
    ap.add_argument("--replay", default=None)
    ap.add_argument("--procs", type=int, default=None)
    ap.add_argument("--no-confirm", action="store_true")
    args = ap.parse_args(argv)
    prop = args.prop.upper()
    t0 = time.time()
    base.setup_repo()
    H = importlib.import_module("harness." + prop)
    seed = base.seed()

    if args.replay:
        with open(args.replay) as f:
            rec = json.load(f)
        vs = H.replay(rec["case"])
        if vs:
            print("replay: %s" % json.dumps(vs[0], default=base._json_default)[:2000])
            print("VIOLATION property=%s replay=%s" % (prop, args.replay))
            return 1
        print("replay: property held on this case")
        return 0

    plan = H.plan(args.tier, seed)
    deadline = None
    cap = plan.get("time_cap_s")
    if cap:
        deadline = t0 + cap
    known = load_findings(prop)
    matchers = getattr(H, "MATCHERS", {})
    finalize = getattr(H, "finalize", None)

    def post(v):
        """runs in the worker: minimise, confirm by replay, match against known findings"""
        raw = v
        if finalize is not None:
            try:
                v = finalize(v)
            except Exception as e:  # harness bug in the minimiser: keep the raw one
                v = dict(raw)
                v["finalize_error"] = repr(e)
        if v is None:
            return {"nondeterministic": True, "raw": raw}
        for e in known:
            fn = matchers.get(e["match"]["fn"])
            try:
                if fn is not None and fn(v, **e["match"].get("args", {})):
                    v["known"] = e["id"]
                    break
            except Exception as ex:
                v["matcher_error"] = repr(ex)
        return v

    base._POST = post
    total = base.pmap(plan["run"], plan["tasks"], procs=args.procs, deadline=deadline)
    postfn = plan.get("post")
    if postfn:
        postfn(total, plan)

    # ---------------- triage
    herr = total.n.get("harness_errors", 0)
    for note in sorted(total.notes)[:3]:
        print(note[:3000])
    if len(total.notes) > 3:
        print("... %d more notes" % (len(total.notes) - 3))
    reported = {}  # signature -> record
    known_hit = {}
    nonrepro = 0
    kn = {e["id"]: e for e in known}
    for v in total.violations:
        if v.get("nondeterministic"):
            # Did not reproduce when the same case was replayed in the same process: never a VIOLATION (there is
            # no failing replay to hand over).  Counted and shown; harnesses whose subject is address-dependent by
            # nature (MyGrad's id()-keyed lock tables: C08) declare NONREPRODUCIBLE_OK, for all others it is a
            # harness error.
            nonrepro += 1
            print("NONREPRODUCIBLE property=%s (a raw violation did not reproduce on replay): %s"
                  % (prop, json.dumps(v.get("raw"), default=base._json_default)[:400]))
            if not getattr(H, "NONREPRODUCIBLE_OK", False):
                herr += 1
            continue
        if v.get("known") in kn:
            known_hit.setdefault(v["known"], [kn[v["known"]], 0])[1] += 1
            continue
        sig = v.get("signature") or base.stable_hash(v.get("case"))
        if sig not in reported:
            reported[sig] = v

    for fid, (e, n) in sorted(known_hit.items()):
        print("KNOWN-FINDING: property=%s %s [%s; %d raw case(s) this run]" % (prop, e["what"], fid, n))

    rc = 0
    os.makedirs(os.path.join(base.VERIF, "replays"), exist_ok=True)
    nrep = 0
    for sig, v in list(reported.items())[:12]:
        rec = {
            "property": prop,
            "harness": H.__name__,
            "tier": args.tier,
            "seed": seed,
            "case": v["case"],
            "failure": v.get("failure"),
            "script": v.get("script"),
            "versions": {"python": sys.version.split()[0]},
        }
        hname = "%s-%016x" % (prop, base.stable_hash(v["case"]))
        path = os.path.join(base.VERIF, "replays", hname + ".json")
        base.save_json(path, rec)
        if v.get("script"):
            with open(os.path.join(base.VERIF, "replays", hname + ".py"), "w") as f:
                f.write(v["script"])
        ok = True
        if not args.no_confirm and nrep < 4:
            # confirm from a fresh process
            p = subprocess.run(
                [os.path.join(base.VERIF, "check"), prop, "--replay", path],
                capture_output=True,
                text=True,
                env=dict(os.environ),
            )
            ok = p.returncode == 1
            nrep += 1
        if not ok:
            herr += 1
            print("HARNESS-NONDETERMINISM property=%s replay=%s (did not reproduce in a fresh process)" % (prop, path))
            continue
        print("failure: %s" % json.dumps(v.get("failure"), default=base._json_default)[:1500])
        print("VIOLATION property=%s replay=%s" % (prop, path))
        rc = 1
    if len(reported) > 12:
        print("... %d further distinct violation signatures not written out" % (len(reported) - 12))

    # ---------------- evidence
    wall = time.time() - t0
    n = total.n
    exhaustive = (not total.capped) and herr == 0
    cov = {
        "evaluations": int(n.get("evaluations", 0)),
        "distinct_nontrivial": len(total.nontrivial),
        "rule": plan.get("rule", ""),
        "samples": total.samples[:6] or plan.get("samples", []),
        "exhaustive": bool(exhaustive),
        "bounds": plan.get("bounds", {}),
        "distinct_outcomes": len(total.outcomes),
        "outcomes": dict(sorted(total.outcomes.items(), key=lambda kv: -kv[1])[:250]),
        "counters": {k: int(v) for k, v in sorted(n.items())},
        "known_findings_hit": sorted(known_hit),
        "tasks": len(plan["tasks"]),
        "time_capped": bool(total.capped),
        "nonreproducible_raw_violations": nonrepro,
    }
    if H.LEVEL == "model_checking":
        cov["states"] = len(total.states)
        cov["transitions"] = int(n.get("transitions", 0))
        cov["traces_validated_against_impl"] = int(n.get("traces", 0))
    ev = {
        "property_id": prop,
        "tier": args.tier,
        "seed": seed,
        "level": H.LEVEL,
        "coverage": cov,
        "assumptions": plan.get("assumptions", []),
        "wall_s": round(wall, 2),
        "violations": len(reported),
        "repo": base.REPO,
    }
    os.makedirs(os.path.join(base.VERIF, "evidence"), exist_ok=True)
    base.save_json(os.path.join(base.VERIF, "evidence", prop + ".json"), ev)
    print(
        "%s tier=%s seed=%d evaluations=%d states=%d transitions=%d nontrivial=%d outcomes=%d violations=%d known=%d exhaustive=%s wall=%.1fs"
        % (
            prop,
            args.tier,
            seed,
            cov["evaluations"],
            len(total.states),
            int(n.get("transitions", 0)),
            len(total.nontrivial),
            len(total.outcomes),
            len(reported),
            len(known_hit),
            exhaustive,
            wall,
        )
    )
    if herr:
        print("HARNESS-ERROR property=%s count=%d (not a violation; the check itself is broken)" % (prop, herr))
        return 2 if rc == 0 else rc
    return rc


if __name__ == "__main__":
    sys.exit(main())
