"""./check <Cxx> [--tier quick|thorough] [--replay file]

Drives one harness: plan -> exhaustive enumeration on all cores -> triage of raw violations
(minimise, dedupe, confirm by replay, match against known_findings.json) -> evidence file."""
import argparse
import importlib
import json
import os
import subprocess
import sys
import time

from . import base


def load_findings(prop):
    path = os.path.join(base.VERIF, "known_findings.json")
    if not os.path.exists(path):
        return []
    with open(path) as f:
        data = json.load(f)
    return [e for e in data.get("findings", []) if e.get("property") == prop and e.get("status") == "open"]


def main(argv=None):
    ap = argparse.ArgumentParser()
    ap.add_argument("prop")
    ap.add_argument("--tier", default=os.environ.get("VERIF_TIER", "quick"), choices=["quick", "thorough"])
    ap.add_argument("--replay", default=None)
    ap.add_argument("--procs", type=int, default=None)
    ap.add_argument("--no-confirm", action="store_true")
    args = ap.parse_args(argv)
    prop = args.prop.upper()
    t0 = time.time()
    base.setup_repo()
    H = importlib.import_module("harness." + prop)
    seed = base.seed()

    if args.replay:
        with open(args.replay) as f:
            rec = json.load(f)
        vs = H.replay(rec["case"])
        if vs:
            print("replay: %s" % json.dumps(vs[0], default=base._json_default)[:2000])
            print("VIOLATION property=%s replay=%s" % (prop, args.replay))
            return 1
        print("replay: property held on this case")
        return 0

    plan = H.plan(args.tier, seed)
    deadline = None
    cap = plan.get("time_cap_s")
    if cap:
        deadline = t0 + cap
    total = base.pmap(plan["run"], plan["tasks"], procs=args.procs, deadline=deadline)
    post = plan.get("post")
    if post:
        post(total)

    # ---------------- triage
    herr = total.n.get("harness_errors", 0)
    for note in sorted(total.notes)[:3]:
        print(note[:3000])
    if len(total.notes) > 3:
        print("... %d more notes" % (len(total.notes) - 3))
    known = load_findings(prop)
    matchers = getattr(H, "MATCHERS", {})
    reported = {}  # signature -> record
    known_hit = {}
    finalize = getattr(H, "finalize", None)
    tri_budget = time.time() + float(os.environ.get("VERIF_TRIAGE_S", "120"))
    presig = getattr(H, "presig", None)
    groups = {}
    for v in total.violations:
        try:
            k = presig(v) if presig is not None else base.stable_hash(v.get("failure"))
        except Exception:
            k = base.stable_hash(v.get("case"))
        groups.setdefault(k, []).append(v)
    # one representative per group first, then (budget permitting) the rest
    queue = [g[0] for g in groups.values()] + [v for g in groups.values() for v in g[1:3]]
    for qi, v in enumerate(queue):
        raw = v
        over = time.time() > tri_budget or len(reported) >= 30
        if over and qi >= len(groups):
            break
        if finalize is not None and not over:
            try:
                v = finalize(v)
            except Exception as e:  # harness bug in the minimiser: keep the raw one
                v = dict(v)
                v["finalize_error"] = repr(e)
        if v is None:
            # did not reproduce on replay: harness nondeterminism, never a VIOLATION
            herr += 1
            print("HARNESS-NONDETERMINISM property=%s (a raw violation did not reproduce on replay): %s"
                  % (prop, json.dumps(raw, default=base._json_default)[:600]))
            continue
        sig = v.get("signature") or base.stable_hash(v.get("case"))
        hit = None
        for e in known:
            fn = matchers.get(e["match"]["fn"])
            if fn is not None and fn(v, **e["match"].get("args", {})):
                hit = e
                break
        if hit is not None:
            known_hit.setdefault(hit["id"], [hit, 0])[1] += 1
            continue
        if sig not in reported:
            reported[sig] = v

    for fid, (e, n) in sorted(known_hit.items()):
        print("KNOWN-FINDING: property=%s %s [%s; %d raw case(s) this run]" % (prop, e["what"], fid, n))

    rc = 0
    os.makedirs(os.path.join(base.VERIF, "replays"), exist_ok=True)
    nrep = 0
    for sig, v in list(reported.items())[:12]:
        rec = {
            "property": prop,
            "harness": H.__name__,
            "tier": args.tier,
            "seed": seed,
            "case": v["case"],
            "failure": v.get("failure"),
            "script": v.get("script"),
            "versions": {"python": sys.version.split()[0]},
        }
        hname = "%s-%016x" % (prop, base.stable_hash(v["case"]))
        path = os.path.join(base.VERIF, "replays", hname + ".json")
        base.save_json(path, rec)
        if v.get("script"):
            with open(os.path.join(base.VERIF, "replays", hname + ".py"), "w") as f:
                f.write(v["script"])
        ok = True
        if not args.no_confirm and nrep < 4:
            # confirm from a fresh process
            p = subprocess.run(
                [os.path.join(base.VERIF, "check"), prop, "--replay", path],
                capture_output=True,
                text=True,
                env=dict(os.environ),
            )
            ok = p.returncode == 1
            nrep += 1
        if not ok:
            herr += 1
            print("HARNESS-NONDETERMINISM property=%s replay=%s (did not reproduce in a fresh process)" % (prop, path))
            continue
        print("failure: %s" % json.dumps(v.get("failure"), default=base._json_default)[:1500])
        print("VIOLATION property=%s replay=%s" % (prop, path))
        rc = 1
    if len(reported) > 12:
        print("... %d further distinct violation signatures not written out" % (len(reported) - 12))

    # ---------------- evidence
    wall = time.time() - t0
    n = total.n
    exhaustive = (not total.capped) and herr == 0
    cov = {
        "evaluations": int(n.get("evaluations", 0)),
        "distinct_nontrivial": len(total.nontrivial),
        "rule": plan.get("rule", ""),
        "samples": total.samples[:6] or plan.get("samples", []),
        "exhaustive": bool(exhaustive),
        "bounds": plan.get("bounds", {}),
        "distinct_outcomes": len(total.outcomes),
        "outcomes": dict(sorted(total.outcomes.items(), key=lambda kv: -kv[1])[:40]),
        "counters": {k: int(v) for k, v in sorted(n.items())},
        "known_findings_hit": sorted(known_hit),
        "tasks": len(plan["tasks"]),
        "time_capped": bool(total.capped),
    }
    if H.LEVEL == "model_checking":
        cov["states"] = len(total.states)
        cov["transitions"] = int(n.get("transitions", 0))
        cov["traces_validated_against_impl"] = int(n.get("traces", 0))
    ev = {
        "property_id": prop,
        "tier": args.tier,
        "seed": seed,
        "level": H.LEVEL,
        "coverage": cov,
        "assumptions": plan.get("assumptions", []),
        "wall_s": round(wall, 2),
        "violations": len(reported),
        "repo": base.REPO,
    }
    os.makedirs(os.path.join(base.VERIF, "evidence"), exist_ok=True)
    base.save_json(os.path.join(base.VERIF, "evidence", prop + ".json"), ev)
    print(
        "%s tier=%s seed=%d evaluations=%d states=%d transitions=%d nontrivial=%d outcomes=%d violations=%d known=%d exhaustive=%s wall=%.1fs"
        % (
            prop,
            args.tier,
            seed,
            cov["evaluations"],
            len(total.states),
            int(n.get("transitions", 0)),
            len(total.nontrivial),
            len(total.outcomes),
            len(reported),
            len(known_hit),
            exhaustive,
            wall,
        )
    )
    if herr:
        print("HARNESS-ERROR property=%s count=%d (not a violation; the check itself is broken)" % (prop, herr))
        return 2 if rc == 0 else rc
    return rc


if __name__ == "__main__":
    sys.exit(main())
