"""Exhaustive-depth exploration of histories (DFS; a state is the history that reaches it; every
extension replays the prefix on a fresh world).  Alphabet = `enabled(model, cfg, name)`.
"""
import gc
import warnings

import numpy as np

from . import base
from .hist import INDICES, OPS1, VIEWS, Impl, Model


# ------------------------------------------------------------------ alphabets
def _bcast_ok(vshape, region):
    try:
        return np.broadcast_shapes(vshape, region) == tuple(region)
    except ValueError:
        return False


def value_candidates(m, tgt, region, cfg):
    """values that may be written into a region of `tgt`: a scalar, and tensors that broadcast"""
    vals = [("c", "c0")]
    cands = [n for n in m.order if n != tgt and _bcast_ok(m.shape(n), region)]
    mode = cfg.get("values", "narrow")
    if mode == "narrow":
        pick = []
        for n in cands:
            if n in cfg.get("value_only", ()):
                pick.append(n)
        others = [n for n in cands if n not in pick]
        if others:
            pick.append(others[-1])
        cands = pick
    vals += [("t", n) for n in cands]
    if cfg.get("self_value") and _bcast_ok(m.shape(tgt), region):
        vals.append(("t", tgt))
    return vals


def enabled(m, cfg, out):
    sts = []
    live = list(m.order)
    vo = cfg.get("value_only", ())
    full = len(live) >= cfg.get("max_live", 6)
    srcs = [n for n in live if n not in vo]
    if not full:
        for s in srcs:
            shp = m.shape(s)
            for v in cfg.get("views", ()):
                if VIEWS[v][3](shp):
                    sts.append(("view", out, s, v))
            for o in cfg.get("ops1", ()):
                if OPS1[o][3](shp):
                    sts.append(("op1", out, s, o))
        for o in cfg.get("ops2", ()):
            for i, a in enumerate(live):
                for b in live[i:] if cfg.get("ops2_sym", True) else live:
                    try:
                        if o == "matmul":
                            np.matmul(np.zeros(m.shape(a)), np.zeros(m.shape(b)))
                        else:
                            np.broadcast_shapes(m.shape(a), m.shape(b))
                    except ValueError:
                        continue
                    sts.append(("op2", out, ("t", a), ("t", b), o))
            for a in srcs:
                if cfg.get("ops2_const"):
                    sts.append(("op2", out, ("t", a), ("c", "c1"), o))
    for tgt in srcs:
        shp = m.shape(tgt)
        if cfg.get("fails"):
            sts.append(("failset", tgt))  # an in-place update that raises: nothing may change, also for later statements
        for iname in cfg.get("set_idx", ()):
            if not INDICES[iname][2](shp):
                continue
            region = m.a[tgt][m.index_obj(tgt, iname)].shape
            for val in value_candidates(m, tgt, region, cfg):
                if iname == "all" and val[0] == "t" and not cfg.get("set_all_tensor", True):
                    continue
                sts.append(("set", tgt, iname, val))
        for oname in cfg.get("iops", ()):
            if oname == "ipow2":
                sts.append(("iop", tgt, oname, None))
                continue
            for val in value_candidates(m, tgt, shp, cfg):
                if oname == "iadd" and val[0] == "t" and not cfg.get("iadd_tensor", False):
                    continue
                if oname == "imul" and val[0] == "c" and not cfg.get("imul_const", False):
                    continue
                sts.append(("iop", tgt, oname, val))
        for uf, mask in cfg.get("outs", ()):
            vals = value_candidates(m, tgt, shp, cfg)
            tv = [v for v in vals if v[0] == "t"]
            if uf == "add":
                for a in tv[:2] or [("t", tgt)]:
                    sts.append(("out", tgt, uf, a, ("c", "c1"), mask))
                if cfg.get("outs_const"):
                    sts.append(("out", tgt, uf, ("c", "c0"), ("c", "c1"), mask))
            else:
                for a in tv[:2] or [("t", tgt)]:
                    sts.append(("out", tgt, uf, a, ("t", tgt) if cfg.get("out_self", True) else ("c", "c2"), mask))
        for shape in cfg.get("setshape", {}).get(shp, ()):
            v = m.a[tgt].view()
            try:
                with warnings.catch_warnings():
                    warnings.simplefilter("ignore")
                    v.shape = shape
            except (AttributeError, ValueError):
                if cfg.get("badshape"):
                    sts.append(("badshape", tgt, shape))
                continue
            sts.append(("setshape", tgt, shape))
        if cfg.get("badshape") and cfg.get("setshape") and len(shp) and int(np.prod(shp)) > 0:
            sts.append(("badshape", tgt, (int(np.prod(shp)) + 1,)))  # wrong size
    for extra in cfg.get("extra", ()):
        sts.extend(extra(m, cfg, out))
    return sts


# ------------------------------------------------------------------ the C04 step oracle
def fmt(a):
    return np.array2string(np.asarray(a), precision=6, separator=",").replace("\n", "")


def c04_check_approx(impl, model, ids):
    return c04_check(impl, model, ids, exact=False)


def c04_check(impl, model, ids, check_base=True, exact=True):
    names = model.order
    for n in names:
        t = impl.t[n]
        a = model.a[n]
        if id(t) != ids[n]:
            return ("identity", n, "tensor object was replaced")
        d = t.data
        if d.shape != a.shape:
            return ("shape", n, "impl %r model %r" % (d.shape, a.shape))
        if d.dtype != a.dtype:
            return ("dtype", n, "impl %s model %s" % (d.dtype, a.dtype))
        if not (np.array_equal(d, a, equal_nan=True) if exact else np.allclose(d, a, rtol=1e-12, atol=1e-300, equal_nan=True)):
            return ("value", n, "impl %s model %s" % (fmt(d), fmt(a)))
        if t.constant != model.const[n]:
            return ("constant", n, "impl %r model %r" % (t.constant, model.const[n]))
        if check_base:
            own = model.owner(n)
            exp = None if own == n else impl.t[own]
            if t.base is not exp:
                got = [k for k in names if impl.t[k] is t.base]
                return ("base", n, "expected base %s, got %s" % (None if own == n else own, got[0] if got else (None if t.base is None else "<internal tensor>")))
    for i, a in enumerate(names):
        for b in names[i + 1:]:
            si = np.shares_memory(impl.t[a].data, impl.t[b].data)
            sm = np.shares_memory(model.a[a], model.a[b])
            if si != sm:
                return ("shares_memory", a + "," + b, "impl %r model %r" % (si, sm))
    return None


class Run:
    """One execution of a history on (Impl, Model) with the C04 oracle after every statement
    from step `check_from` on.  `failure` is None or (step, statement, kind, where, detail)."""

    def __init__(self, init, history, seed=0, check_from=0, oracle=c04_check, model_dtype=np.float64):
        base.reset_mygrad()
        self.init = init
        self.impl = Impl(init, seed)
        self.model = Model(init, model_dtype, seed=seed)
        self.ids = {n: id(self.impl.t[n]) for n in self.impl.order}
        self.failure = None
        self.steps = 0
        for i, st in enumerate(history):
            st = tuple(st)
            self.model.apply(st)  # a model error is a harness error and propagates
            try:
                self.impl.ret = None
                self.impl.apply(st)
            except Exception as e:
                eb = base.exc_brief(e)
                del e
                self.failure = (i, st, "exception", "", "%s: %s" % eb)
                return
            self.steps += 1
            if st[0] in ("view", "op1", "op2"):
                self.ids[st[1]] = id(self.impl.t[st[1]])
            if st[0] == "out" and self.impl.ret is not self.impl.t[st[1]]:
                self.failure = (i, st, "identity", st[1], "out= call did not return its target")
                return
            if i >= check_from and oracle is not None:
                f = oracle(self.impl, self.model, self.ids)
                if f is not None:
                    self.failure = (i, st) + f
                    return

    def close(self):
        self.impl.t.clear()
        self.impl = None
        self.model = None


def dfs(init, cfg, prefix, depth, acc, seed, on_state=None, oracle=c04_check, nontrivial=None):
    """Explore every extension of `prefix` up to `depth` statements."""
    stack = [list(prefix)]
    while stack:
        h = stack.pop()
        r = Run(init, h, seed, check_from=0 if len(h) == len(prefix) else len(h) - 1, oracle=oracle)
        acc.inc("evaluations")
        acc.inc("impl_statements", r.steps)
        if len(h) > len(prefix) or not prefix:
            acc.inc("transitions", 1 if h else 0)
        if r.failure is not None:
            acc.violation({"case": {"init": init, "history": h, "seed": seed}, "failure": r.failure})
            acc.outcome("fail:" + r.failure[2])
            r.close()
            continue
        acc.states.add(r.model.digest())
        if nontrivial is not None and nontrivial(h, r.model):
            acc.nontrivial.add(base.stable_hash(h))
        if on_state is not None:
            on_state(h, r, acc)
        if len(h) >= depth:
            acc.inc("traces")
            acc.outcome("ok:depth%d" % len(h))
            if len(acc.samples) < 2 and len(h) == depth:
                from .hist import render

                acc.samples.append("; ".join(render(s) for s in h))
            r.close()
            continue
        nxt = "t%d" % len(h)
        ext = enabled(r.model, cfg, nxt)
        r.close()
        for st in reversed(ext):
            stack.append(h + [st])
    return acc


def prefixes(init, cfg, k, seed=0):
    """all histories of exactly min(k, .) statements (model only) -> task list"""
    out = [[]]
    for _ in range(k):
        nxt = []
        for h in out:
            m = Model(init, seed=seed)
            for st in h:
                m.apply(st)
            for st in enabled(m, cfg, "t%d" % len(h)):
                nxt.append(h + [st])
        out = nxt
    return out


def has_stale_edge(tensors):
    """True if the graph reachable from `tensors` contains an op that is no longer registered in the
    (non-empty) consumer set of one of its non-constant inputs -- the state left behind when a clear
    event empties a consumer set and later re-use refills it (root cause of finding F-C09)."""
    import weakref

    stack = list(tensors)
    seen = set()
    stale = False
    while stack and not stale:
        u = stack.pop()
        if id(u) in seen:
            continue
        seen.add(id(u))
        op = u._creator
        if op is None:
            continue
        for var in op.variables:
            if not var.constant and weakref.ref(op) not in var._ops:
                stale = True
            stack.append(var)
    del stack
    return stale
