"""rewrites the table of DESIGN.md section 9.2 from the evidence files (run after a seed-0 sweep of all quick checks on /repo)"""
import glob
import json
import re

WHAT = {
    "C01": "all programs <= 2 (full alphabet, 2-D/0-d world) / <= 3 (core alphabet) statements; every plain catalogue case in 4 program templates",
    "C02": "op catalogue (ufuncs x shapes x layouts x masks x dtype x kinds, reductions, linalg, indexing, manipulation, special values, value-grid sweeps, mask containers) + nnet calls",
    "C03": "entry point x dtype x shape x layout x option cells, tracked and untracked; weak-scalar, in-place/layout and out= cells",
    "C04": "depth 4 on (4,), depth 3 on (2,3) C/F roots, constant-view, subclass-owned, failing-update and guard-off worlds; rejected .shape assignments",
    "C05": "depth 3 on (4,) and F-ordered (2,3), depth 2 on (2,3); repeated-operand worlds; every prefix closed by backward (all-live terminal and each tensor alone); non-finite-gradient cells",
    "C06": "depth 3 on 4 bases x term orders x dangling terminals x two-epoch runs x direct terminals with 5 seed kinds",
    "C07": "depth 4 on (3,), depth 3 on (2,2) and on an F-ordered leaf with pre-built views; <= 2 backward passes per history",
    "C08": "depth 4 from the empty world, depth 3-4 from 5 pre-built worlds (views, read-only view, shapes, ...)",
    "C09": "depth 5 (4 alphabets), every live tensor as final L with one retry; every catalogue op / nnet call as consumer of a cleared intermediate",
    "C10": "all programs <= 2 statements x 36 leaf-kind assignments x constant=; n-ary, operator, method/constructor and all-constant-input cells",
    "C11": "operation x shapes x operand kinds cells under all spellings; dtype+out class; comparison operators; non-differentiable and rounding families",
    "C12": "catalogue cases + nnet calls + conversions + several programs per process + all programs <= 2 statements",
    "C13": "every history <= depth 3 (2 on (2,3)) x position x fault kind x target in 5 worlds",
    "C14": "all programs <= 2 statements (incl. narrowing dtype= calls) x 4 dtype assignments x every seed kind + nnet one-op programs",
    "C15": "all block-structured scope programs <= 5 nodes (+ early-decorated <= 4) with probes; op-catalogue lattice tracked vs with/decorator",
    "C16": "sliding_window_view / conv_nd / max_pool lattices (valid and invalid, dtypes, containers), batchnorm / softmax / gru / loss formulas incl. extreme logits",
    "C17": "input kind (incl. buffer / __array__ objects, layouts) x dtype x constant x copy x ndmin x entry point; copy/astype lattice; creation routines incl. tensor-typed arguments",
    "C18": "shape x dtype x constant x gradient kind x tensor kind (incl. permuted non-contiguous views) x 12 file kinds",
}
rows = ["| id | level | quick tier: what is enumerated completely | executions | states | transitions | wall of the recorded run (s) |", "|---|---|---|---|---|---|---|"]
for f in sorted(glob.glob("/verif/evidence/C*.json")):
    d = json.load(open(f))
    c = d["coverage"]
    rows.append("| %s | %s | %s | %s | %s | %s | %s |" % (d["property_id"], d["level"], WHAT[d["property_id"]], c.get("evaluations"), c.get("states", ""), c.get("transitions", ""), round(d.get("wall_s", 0))))
p = "/verif/DESIGN.md"
s = open(p).read()
i = s.index("### 9.2 ")
j = s.index("`states` in the evidence", i)
head = s[i:s.index("\n", i) + 1]
s = s[:i] + head + "\n(regenerated from the evidence files by tools/update_design_table.py after the last seed-0 sweep; wall times are from a machine that was running other jobs)\n\n" + "\n".join(rows) + "\n\n" + s[j:]
open(p, "w").write(s)
print("\n".join(rows))
