#!/bin/bash
# usage: tools/seedcheck.sh <seed_src_dir (patch.diff, demo.py, notes.md)> <PROP> <seed_id> [tier] [skiptests]
# Confirms a seeded change in a scratch worktree: demo passes on clean HEAD, fails with the patch,
# repo test suite passes with the patch; then runs ./check <PROP> against the patched tree.
# On success stores it under /verif/seeded/<seed_id>/.
set -u
SRC=$1; PROP=$2; ID=$3; TIER=${4:-quick}; SKIPTESTS=${5:-}
WT=/tmp/seedwt_$ID
OUT=/verif/seeded/$ID
LOG=/tmp/seedcheck_$ID.log
rm -rf $WT; git -C /repo worktree prune
git -C /repo worktree add -q --detach $WT HEAD || exit 9
cd $WT
clean_demo=$(PYTHONPATH=$WT/src timeout 600 /venv/bin/python $SRC/demo.py >$LOG.demo_clean 2>&1; echo $?)
git apply $SRC/patch.diff 2>/dev/null || patch -p1 -F3 --no-backup-if-mismatch < $SRC/patch.diff >/dev/null || { echo "patch does not apply"; git -C /repo worktree remove --force $WT; exit 8; }
git diff -- src > /tmp/seedpatch_$ID.diff   # re-based on the current HEAD
patched_demo=$(PYTHONPATH=$WT/src timeout 600 /venv/bin/python $SRC/demo.py >$LOG.demo_patched 2>&1; echo $?)
if [ -z "$SKIPTESTS" ]; then
  PYTHONPATH=$WT/src timeout 3000 /venv/bin/python -m pytest -q -p no:cacheprovider --timeout=900 -n 8 --deselect tests/test_version.py::test_version tests >$LOG.tests 2>&1
  tests_rc=$?
  if [ "$tests_rc" != 0 ]; then
    # failures under load (hypothesis deadlines, statistical tests) are re-run serially before they count
    ids=$(grep "^FAILED " $LOG.tests | sed 's/^FAILED //; s/ - .*//' | sort -u)
    if [ -n "$ids" ] && [ $(echo "$ids" | wc -l) -le 10 ]; then
      PYTHONPATH=$WT/src timeout 1500 /venv/bin/python -m pytest -q -p no:cacheprovider --timeout=900 $ids >$LOG.tests_rerun 2>&1
      tests_rc=$?
      echo "re-ran $(echo "$ids" | wc -l) failed test(s) serially: rc=$tests_rc"
    fi
  fi
else tests_rc=skipped; fi
cd /verif
cp evidence/$PROP.json /tmp/ev_$PROP.$ID.bak 2>/dev/null
VERIF_REPO=$WT timeout 3000 ./check $PROP --tier $TIER >$LOG.check 2>&1
check_rc=$?
cp /tmp/ev_$PROP.$ID.bak evidence/$PROP.json 2>/dev/null   # evidence must describe /repo, not the patched tree
git -C /repo worktree remove --force $WT
echo "seed=$ID prop=$PROP demo_clean_rc=$clean_demo demo_patched_rc=$patched_demo tests_rc=$tests_rc check_rc=$check_rc"
tail -n 3 $LOG.tests 2>/dev/null | head -3
grep -m3 "VIOLATION\|KNOWN-FINDING\|HARNESS" $LOG.check; tail -n 1 $LOG.check
if [ "$clean_demo" = 0 ] && [ "$patched_demo" != 0 ] && { [ "$tests_rc" = 0 ] || [ "$tests_rc" = skipped ]; }; then
  mkdir -p $OUT; cp /tmp/seedpatch_$ID.diff $OUT/patch.diff; cp $SRC/demo.py $OUT/; cp $SRC/notes.md $OUT/notes.md 2>/dev/null
  cat > $OUT/meta.json <<EOM
{"id": "$ID", "property": "$PROP", "confirmed": {"demo_on_clean_tree_rc": $clean_demo, "demo_with_patch_rc": $patched_demo, "repo_suite_with_patch_rc": "$tests_rc"},
 "ran": ["PYTHONPATH=<wt>/src /venv/bin/python demo.py (clean and patched scratch worktree of /repo HEAD)", "PYTHONPATH=<wt>/src /venv/bin/python -m pytest -n 8 --deselect tests/test_version.py::test_version tests", "VERIF_REPO=<wt> ./check $PROP --tier $TIER"],
 "check_rc": $check_rc, "detected": $( [ "$check_rc" = 1 ] && echo true || echo false ), "tier": "$TIER"}
EOM
  echo "stored $OUT"
else
  echo "NOT CONFIRMED: not stored"
fi
