"""second-round prompt: same as agent_prompt.py plus a list of mechanisms already used (to get different ones)"""
import json, subprocess, sys
pid, wt = sys.argv[1], sys.argv[2]
base = subprocess.check_output([sys.executable, "/verif/tools/agent_prompt.py", pid, wt]).decode()
tried = {
 "C01": ["max/min VJP writing through ravel() for F-ordered inputs", "x ** p fast path dropping a 0-d tensor exponent from the graph", "where-mask applied once to the incoming gradient so pass-through ops store the same array for both operands", "memoised quotient in MultiplySequence.backward_var"],
 "C02": ["norm VJP giving NaN at exact zeros for 1<ord<2", "where() keeping a non-boolean condition so ~cond is bitwise", "logaddexp VJP through one cached ratio (inf/inf)", "x ** p shortcut extended to 0-d tensor exponents"],
 "C04": ["shape setter registering the placeholder on the owner instead of the parent", "in-place copy of the base losing its memory layout", "in-place through an explicitly non-constant view flipping the constant base's flag", "view detection recognising only views whose .base is the memory owner (ndarray subclasses)"],
 "C05": ["where-mask that selects nothing skipping ApplyMask", "out= with all-constant operands making the target constant", "repeated-index masking missing Tensor-typed index arrays", "ApplyMask applying a broadcast mask along the wrong axes"],
 "C07": ["placeholder view-children held strongly (reference cycle)", "gradients not nulled when a view-capable op actually copies", "ApplyMask keeping itself alive through a table of bound methods", "a disconnected view falling back on the gradient of an earlier pass"],
 "C08": ["waiting views never unlocked because the cleanup looks at the wrong table", "base of an out= view not locked when already tracked", "failed op releasing its locks only for ValueError/TypeError", "UnView op built with the memory guard off"],
 "C09": ["cleared-graph check moved from op inputs to leaf tensors", "gradient nulling at backprop start limited to view-related tensors", "in-place update honouring an explicit constant=True", "clear_graph releasing the locks of live view children early"],
 "C13": ["lock release of a failed op tied to the Operation's lifetime", "read-only check placed after graph duplication, outside the rollback", "rollback of the view-children bookkeeping restoring the mutated object", "lingering-base drop moved before the forward call"],
 "C12": ["copy-before-store rule narrowed to `base is grad`", "Tensor.copy() sharing the gradient array", "gru backward writing into the caller's seed", "get-item backward wrapping negative entries of the caller's index array in place"],
 "C14": ["seed stored on L before validation", "out-of-place accumulation returning a NumPy scalar for 0-d", "a Tensor seed skipping the dtype cast", "gru storing X's gradient in the widest dtype"],
 "C06": ["first contribution that is a view copied C-ordered", "pre-clear pull of the view gradient skipped when the view has no own gradient", "a view not registered among its base's view children detached when entering a non-view op (two graph epochs)", "gradient accumulation done out of place so NumPy picks the layout"],
 "C10": ["explicit constant= overriding an out= target's flag", "multi_matmul taking the trailing vector's flag from the first operand", "** shortcut treating a 0-d Tensor exponent as constant", "astype(copy=False, constant=False) returning self"],
 "C11": ["** with 0-d tensor exponent taking the unary shortcut", "rounding/modulo guard checking only the dispatching tensor", "<= / >= computed as negation of > / < (NaN)", "Tensor.moveaxis swapping source and destination"],
 "C03": ["weak-scalar dtype memoised on the scalar's value", "** shortcut firing for any one-element exponent array", "BinaryUfunc dropping dtype= when where= is given", "ravel walking memory order (order=K)"],
 "C15": ["decorator restoring the setting read at decoration time", "backward() under no_autodiff clearing a constant tensor's graph", "internal scope around view-gradient replay setting TRACK_GRAPH to True instead of restoring", "weak-scalar resolution skipped on the untracked path"],
 "C16": ["sliding_window_view skipping the contiguity copy for strided leading axes", "conv_nd rejecting only when every axis is bad", "max_pool tiling test using x % stride", "conv_nd padding buffer in the filter's dtype"],
 "C17": ["byte-order-only dtype difference passing through astensor", "copy=False with ndmin>ndim copying", "default copy skipped for buffer-protocol / __array_interface__ inputs", "mg.asarray defaulting to order=C"],
 "C18": ["save reading the private gradient slot", "load normalising layout with ascontiguousarray", "save deriving the file name with with_suffix", "load restoring the gradient only if grad.size"],
}.get(pid, [])
extra = "\nALREADY USED in an earlier round (do NOT repeat these or close variants; pick different code sites and mechanisms):\n" + "\n".join("- " + t for t in tried) + "\n"
extra += "\nNOTE: other processes use the CPU, so hypothesis-deadline or statistical tests may flake: re-run a failing test alone before blaming your change. Use `--deselect tests/test_version.py::test_version` (it fails under PYTHONPATH on the clean tree).\n"
print(base.replace("DELIVERABLES:", extra + "\nDELIVERABLES:"))
