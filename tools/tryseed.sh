#!/bin/bash
# usage: tools/tryseed.sh <seed id> <PROP> [tier]  -- applies seeded/<id>/patch.diff to /repo, runs the check, restores /repo and the evidence
ID=$1; P=$2; T=${3:-quick}
if [ -n "$(git -C /repo status --short)" ]; then echo "refusing: /repo has uncommitted changes (they would be reverted)"; exit 8; fi
cd /repo && (git apply /verif/seeded/$ID/patch.diff 2>/dev/null || patch -p1 -F3 --no-backup-if-mismatch < /verif/seeded/$ID/patch.diff >/dev/null) || { echo "patch does not apply"; exit 9; }
cd /verif; ./check $P --tier $T 2>&1 | grep -v "^KNOWN" | tail -${4:-4} | cut -c1-300
cd /repo && git checkout -- . && git status --short | head -3
cd /verif && git checkout -- evidence/$P.json
