#!/bin/bash
# usage: tools/tryseed.sh <seed id> <PROP> [tier] [lines]  -- runs the check against a scratch worktree of /repo HEAD with seeded/<id>/patch.diff
# applied (VERIF_REPO); /repo itself is never touched (long runs and sweeps read it); the evidence file is restored afterwards
ID=$1; P=$2; T=${3:-quick}
WT=/tmp/tryseed_$ID; rm -rf $WT; git -C /repo worktree prune
git -C /repo worktree add -q --detach $WT HEAD || exit 9
(cd $WT && (git apply /verif/seeded/$ID/patch.diff 2>/dev/null || patch -p1 -F3 --no-backup-if-mismatch < /verif/seeded/$ID/patch.diff >/dev/null)) || { echo "patch does not apply"; git -C /repo worktree remove --force $WT; exit 9; }
cd /verif; cp evidence/$P.json /tmp/tryseed_$P.ev 2>/dev/null
VERIF_REPO=$WT ./check $P --tier $T 2>&1 | grep -v "^KNOWN" | tail -${4:-4} | cut -c1-300
cp /tmp/tryseed_$P.ev evidence/$P.json 2>/dev/null
git -C /repo worktree remove --force $WT
