"""prints the rows of DESIGN.md section 9.2 from the evidence files (quick tier, as last run on /repo)"""
import glob
import json

print("| id | level | executions | states | transitions | distinct non-trivial | wall of that run (s, 16 cores, machine not idle) |")
print("|---|---|---|---|---|---|---|")
for f in sorted(glob.glob("/verif/evidence/C*.json")):
    d = json.load(open(f))
    c = d["coverage"]
    print("| %s | %s | %s | %s | %s | %s | %s |" % (d["property_id"], d["level"], c.get("evaluations"), c.get("states", ""), c.get("transitions", ""), c.get("distinct_nontrivial"), round(d.get("wall_s", 0))))
