import json,sys
pid=sys.argv[1]; wt=sys.argv[2]
for l in open('/verif/properties.jsonl'):
    p=json.loads(l)
    if p['id']==pid: break
print(f"""You are helping test a verification effort for the Python library rsokl/MyGrad (a pure-Python reverse-mode autodiff library over NumPy). Your job: produce TWO independent, realistic *defect-introducing* source changes ("seeded bugs") to MyGrad that each break the semantic property below, while the library still imports and its existing test suite still passes.

PROPERTY {p['id']}: {p['title']}
Statement: {p['statement']}
Quantifier: {p['quantifier']['text']}
Anchors (where the mechanism lives): {json.dumps(p['anchors']['mechanism'])}

WORKSPACE: you have your own scratch git worktree of the repository at {wt} (source under {wt}/src/mygrad, tests under {wt}/tests). Work ONLY inside {wt}. Never read or touch /repo or /verif (they are out of bounds; what you write must be independent of them).
IMPORTANT environment facts:
- Use /venv/bin/python. The venv has an editable install pointing at ANOTHER checkout, so you MUST run everything with PYTHONPATH={wt}/src so that your worktree's mygrad is the one imported; verify with: PYTHONPATH={wt}/src /venv/bin/python -c "import mygrad; print(mygrad.__file__)".
- Run the existing tests with: cd {wt} && PYTHONPATH={wt}/src /venv/bin/python -m pytest -q -p no:cacheprovider -x -n 6 tests   (takes a few minutes; there is no network). All tests that pass on the clean worktree must still pass with your change (the clean tree passes everything; xfails stay xfails).
- No network access. Do not install anything.

REQUIREMENTS for each of the two changes:
1. It is a small edit to files under {wt}/src/mygrad (not tests), the kind of mistake a maintainer could plausibly make in a refactor or "optimisation" (e.g. a dropped copy, a wrong condition, an off-by-one, a stale cache, handling only the common case, two sites that each look fine alone).
2. It breaks the property above for some inputs/programs/histories, but needs something SPECIFIC to manifest (a particular multi-step sequence of operations, an unusual-but-legal input or option combination, a particular ordering) - NOT something ordinary use or the existing tests expose at once. The two changes must use different mechanisms / code sites.
3. The full existing test suite still passes with the change applied (you must actually run it and confirm).
4. You write a small demonstration program demo.py (plain Python using mygrad + numpy, with asserts; exit code 0 = property holds, non-zero/AssertionError = broken) that FAILS with the change applied and PASSES on the clean worktree. Confirm both.

DELIVERABLES: create directories {wt}/_seed/1 and {wt}/_seed/2, each containing:
- patch.diff : output of `git -C {wt} diff -- src` for that change alone (apply-able to the clean tree with `git apply`)
- demo.py    : the demonstration
- notes.md   : 5-10 lines: what was changed, why it breaks the property, what specific circumstances it needs to manifest, and the exact commands you ran with their results (tests pass with patch; demo fails with patch; demo passes without).
Leave the worktree's src CLEAN at the end (git -C {wt} checkout -- src) so that only _seed/ holds your output. Finish with a short summary of the two changes.
""")
