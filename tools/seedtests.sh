#!/bin/bash
# usage: tools/seedtests.sh <seed_id>...   -- (re)confirms that the repo suite passes with seeded/<id>/patch.diff applied; updates meta.json
for ID in "$@"; do
  WT=/tmp/seedwt_t_$ID; rm -rf $WT; git -C /repo worktree prune
  git -C /repo worktree add -q --detach $WT HEAD || exit 9
  cd $WT
  git apply /verif/seeded/$ID/patch.diff 2>/dev/null || patch -p1 -F3 --no-backup-if-mismatch < /verif/seeded/$ID/patch.diff >/dev/null || { echo "$ID: patch does not apply"; git -C /repo worktree remove --force $WT; continue; }
  PYTHONPATH=$WT/src timeout 3000 /venv/bin/python -m pytest -q -p no:cacheprovider --timeout=900 -n 8 --deselect tests/test_version.py::test_version tests >/tmp/seedtests_$ID.log 2>&1
  rc=$?
  if [ "$rc" != 0 ]; then
    ids=$(grep "^FAILED " /tmp/seedtests_$ID.log | sed 's/^FAILED //; s/ - .*//' | sort -u)
    if [ -n "$ids" ] && [ $(echo "$ids" | wc -l) -le 10 ]; then
      PYTHONPATH=$WT/src timeout 1500 /venv/bin/python -m pytest -q -p no:cacheprovider --timeout=900 $ids >/tmp/seedtests_$ID.rerun.log 2>&1; rc=$?
    fi
  fi
  cd /verif; git -C /repo worktree remove --force $WT
  /venv/bin/python - <<PY
import json
p='/verif/seeded/$ID/meta.json'; m=json.load(open(p)); m['confirmed']['repo_suite_with_patch_rc']="$rc"; json.dump(m,open(p,'w'),indent=1)
PY
  echo "$ID suite_rc=$rc $(tail -n 1 /tmp/seedtests_$ID.log | cut -c1-100)"
done
