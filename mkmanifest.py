#!/venv/bin/python
"""Regenerates MANIFEST.json from the table below (kept in one place so it always validates)."""
import json, os
HERE = os.path.dirname(os.path.abspath(__file__))
CHECKS = {
 "C01": ("model_checking", "PROG", "bounded-exhaustive enumeration of all SSA programs <= n statements executed on the real library; complex-step reference per program",
         "Every straight-line program up to the bound (all DAG shapes, operand orders, repetitions, broadcasts, dead statements) is executed and differentiated on the real implementation and compared with a functional complex-step reference; right level because the property quantifies over programs.",
         "values from a fixed dyadic table; leaves (2,) and (2,1); programs <= 3-4 statements; NumPy complex kernels trusted", "3/C01"),
 "C04": ("model_checking", "HIST", "explicit-state exploration of all statement histories <= depth on the real library vs NumPy shadow arrays (reference model), oracle after every statement",
         "All histories of view / non-view / in-place / .shape= statements up to the depth bound are executed on MyGrad and on NumPy arrays; values, aliasing, .base, identity and constant flag are compared after every statement.",
         "NumPy is the reference; roots (4,) and (2,3); <= 6 live tensors; depth 3 (quick) / 4-5 (thorough)", "3/C04"),
 "C05": ("model_checking", "HIST", "explicit-state exploration of all in-place/view histories <= depth, each closed by backward(); complex-step re-execution of the NumPy shadow history as gradient reference",
         "Every history up to the bound is closed by a weighted-sum terminal over all live tensors and backward(); every live tensor's .grad is compared with the complex-step derivative of the same statements executed by NumPy (which itself implements 'reads before a write see old values').",
         "complex-step (h=1e-20) on NumPy complex128; tolerance 1e-9; .shape= excluded", "3/C05"),

 "C07": ("model_checking", "HIST", "explicit-state exploration of all histories <= depth over views / ops / in-place updates / backward / null_grad on the real library with the cyclic GC disabled; weakref liveness + gradient-staleness oracle after every statement",
         "All histories up to the bound are executed with the collector off; after every backward every graph object the program does not hold must be dead and every held tensor detached; gradients must persist / vanish exactly at the events the property names; any exception from a legal statement is a violation.",
         "liveness via weakrefs from an iterative walk of the real graph; private attrs _creator/_ops/_base read; views identified by the implementation's .base", "3/C07"),
 "C08": ("model_checking", "HIST", "explicit-state exploration of all histories <= depth over caller arrays, NumPy views, tensors, out= targets, failing ops, backward/clear_graph and reference drops in every order, from the empty and from pre-built worlds; writeable-flag rule checked after every statement",
         "Every interleaving of locking statements and release events (backward, clear_graph, failing op, dropping any reference) up to the bound is executed; the live graph is read off the implementation and every array's writeable flag is compared with the rule of C08 after each statement and at quiescence.",
         "ops whose upstream was cleared after they were recorded are waived (the property waives them); restoration judged per memory family", "3/C08"),
 "C09": ("model_checking", "HIST", "explicit-state exploration of all histories <= depth over new ops / in-place updates / backward / clear_graph, each closed by L.backward() for every live L; complex-step derivative of the forward computation as recorded (detach at clear events) as reference",
         "Every history up to the bound with at least one clear event is closed by backward() on every live tensor; outcome must be InvalidBackprop or exactly the recorded computation's gradients.",
         "one leaf, no views; which tensors a clear event detaches is read off the implementation's graph", "3/C09"),
 "C13": ("fault_enumeration", "HIST", "exhaustive fault enumeration: every history <= depth x every insertion position x every kind of failing statement x every live tensor as target, differential against the fault-free run on the real library",
         "All single-fault insertions into all histories up to the bound; the run with the failing statement must be observationally identical (per statement and in the final gradients) to the run without it.",
         "differential oracle (no expected values); creator kind / live consumer count read from private attributes", "3/C13"),

 "C14": ("model_checking", "PROG", "bounded-exhaustive enumeration of all SSA programs <= n statements x leaf dtypes x every seed kind on the real library; differential between backward(g) and (L*g).sum().backward() on fresh replays plus a gradient shape/dtype invariant on every tensor",
         "Every program up to the bound is back-propagated under every seed form (scalars, arrays, tensors, every broadcastable and several non-broadcastable shapes) in f16/f32/f64/mixed; the two documented identities are checked differentially and the grad shape/dtype invariant on every tensor, including one-op programs of all nnet layers.",
         "programs <= 2-3 statements over the core alphabet; tolerance 64 eps between the two seedings", "3/C14"),
 "C15": ("model_checking", "HIST", "exhaustive enumeration of all block-structured scope programs <= n nodes (with/decorator/try/raise/turn_on/turn_off/probe x 3 managers) executed with real syntax; a stack interpreter (reference model) predicts the switches after every enter/exit/raise",
         "All nestings up to the bound, including re-entrant use of the same manager and exceptions unwinding through any number of levels, are executed; the real switches are compared with the stack model at every step and a probe checks the no_autodiff clause inside scopes.",
         "MEM_GUARD after a turn_* call made inside a scope is not compared until an enclosing mem-guard scope exits", "3/C15"),
 "C17": ("exploration", "CONF", "exhaustive product of input kind x dtype x constant x copy x ndmin x entry point, copy/astype lattice and creation-routine argument lattice, each cell executed on the real library against numpy.asarray/numpy.array/NumPy namesakes",
         "Every cell of the construction/conversion lattices is executed; aliasing, identity, dtype, constant flag, rejection of non-real dtypes and parity of the creation routines with NumPy are compared cell by cell.",
         "expectations derived from NumPy itself; constant inference for tensor inputs with constant=None not compared", "3/C17"),
 "C18": ("exploration", "CONF", "exhaustive product shape x dtype x constant x gradient kind x tensor kind x file kind of save/load round trips on the real library",
         "Every cell of the lattice (incl. 0-d, empty, int/bool/float16, view gradients, BytesIO and file objects) is round-tripped and compared; the source tensor's observable state must be unchanged.",
         "files under /dev/shm or the default temp dir", "3/C18"),

 "C06": ("model_checking", "HIST", "explicit-state exploration of all view/consumer histories <= depth over 4 base shapes (C and F order) x every permutation of the order in which consumers are added to the terminal (the schedule that decides which op back-propagates into a base first); oracle on view/base gradients after backward",
         "Every history of view chains and consumers up to the bound, under every ordering of the gradient contributions, is executed; each view's gradient must be the corresponding view of its base's gradient (value, memory sharing, write-through, None-ness) and unrelated gradients must not alias.",
         "expected view of the base gradient addressed through integer tag arrays riding the same NumPy view ops", "3/C06"),
 "C10": ("model_checking", "PROG", "bounded-exhaustive enumeration of all programs <= n statements x 36 leaf-kind assignments x constant=None/True/False on every statement, executed on the real library; rule-based oracle for .constant plus differential run with constants replaced by ndarrays",
         "Every program up to the bound under every assignment of constant/non-constant flags and dtypes is executed; the documented rule for .constant, rejection of constant=False for integer results, absence of gradients on constants, and equality of all other gradients with the array-replaced program are checked.",
         "programs <= 2-3 statements over function-form ops that accept constant=; statements NumPy itself rejects are skipped", "3/C10"),
 "C16": ("exploration", "CONF", "exhaustive product of shape/layout/window/step/dilation cells for sliding_window_view (valid and invalid), full 1-D and representative 2-D stride/padding/dilation products for conv_nd and max_pool, small lattices for batchnorm/softmax/gru/losses, each against element-by-element evaluation of the documented formula",
         "Every cell is executed on the real layer and compared with a naive nested-loop evaluation; acceptance is compared with the validity predicate stated in the property (valid => formula, invalid => raises), and the sliding-window view's read-only flag and byte bounds are checked.",
         "float64; gru only for dropout=0; sides <= 4-5", "3/C16"),

 "C02": ("exploration", "CONF", "exhaustive product of the op catalogue (every registered ufunc x shapes x layouts x where-masks x dtype x operand kinds, reductions x axis forms x keepdims x ddof, matmul/einsum/norm, index catalogue, manipulation/joining ops, nnet calls) executed on the real library; g.J from complex-step columns of a functional NumPy model as reference",
         "Every cell of every operation's option x shape x layout x value-domain lattice is evaluated and back-propagated with an arbitrary incoming gradient and compared element-wise with the complex-step Jacobian-vector product; documented conventions at kinks are tabulated.",
         "operands <= 8-18 elements; tolerance 2e-9; non-holomorphic ops use hand-written complex-safe models; cells outside the differentiable domain not generated", "3/C02"),
 "C03": ("exploration", "CONF", "exhaustive product of entry point x operand dtype (bool/int8/int32/int64/f16/f32/f64 and Python scalars) x shape x layout x keyword option, each cell executed on the real library with tracking on and off against the same NumPy call",
         "Every cell is executed in MyGrad (tracked and untracked) and in NumPy on the underlying arrays; values (bitwise, NaN-aware), shape and dtype must agree and calls NumPy rejects must be rejected.",
         "installed NumPy (NEP 50) is the reference; only keyword options present in the MyGrad signature are enumerated", "3/C03"),
 "C11": ("exploration", "CONF", "exhaustive enumeration of every (operation, operand shapes, operand kinds) cell under all its spellings (function, NumPy function, method, operator, reflected, augmented, out=Tensor, out=ndarray) on the real library; differential comparison of values, dtype, constant flag and operand gradients",
         "All spellings of every cell must agree pairwise (differential oracle, no expected values); non-differentiable NumPy functions must return plain arrays equal to NumPy's; the rounding/modulo family must refuse non-constant tensors in every spelling.",
         "gradients compared after rounding to 12 decimals", "3/C11"),
 "C12": ("exploration", "CONF", "exhaustive enumeration of the op/nnet catalogues and of all SSA programs <= n statements on the real library with byte snapshots of every caller-owned object and a sentinel-write aliasing probe on every stored gradient",
         "Every op cell and every program up to the bound is executed; inputs, index objects, masks and the seed must be byte-identical afterwards, backward must not change data, and writing through any .grad must not be visible in an unrelated gradient or in any data.",
         "the terminal's own gradient may be the caller's seed array (documented)", "3/C12"),
}
NA = {}
def main():
    props = [json.loads(l)["id"] for l in open(os.path.join(HERE, "properties.jsonl"))]
    checks = []
    for pid in props:
        if pid not in CHECKS:
            continue
        level, engine, tech, text, note, ref = CHECKS[pid]
        checks.append({
            "property_id": pid,
            "quick_cmd": "./check %s --tier quick" % pid,
            "thorough_cmd": "./check %s --tier thorough" % pid,
            "evidence_file": "/verif/evidence/%s.json" % pid,
            "replay_cmd_template": "./check %s --replay {path}" % pid,
            "engine": engine,
            "level_claimed": {"category": level, "text": text, "design_ref": "DESIGN.md section " + ref},
            "level_note": note,
            "technique": tech,
        })
    m = {
        "version": 1,
        "setup_cmd": "/venv/bin/python -m compileall -q /verif/mc /verif/harness >/dev/null; true",
        "hooks": {"guard": "MYGRAD_VERIF", "enable": "no hooks: checks import mygrad from /repo/src through /venv's editable install (VERIF_REPO selects another tree)",
                  "baseline_off_cmd": "cd /repo && /venv/bin/python -m pytest -ra -q -p no:cacheprovider --timeout=900 --continue-on-collection-errors -n 16",
                  "source_commits": [], "add_only": True},
        "engines": [
            {"name": "HIST", "path": "/verif/mc/explore.py", "serves_properties": [p for p in props if p in CHECKS and CHECKS[p][1] == "HIST"], "kind_free_text": "explicit-state search over statement histories on the real library with a NumPy reference model"},
            {"name": "PROG", "path": "/verif/harness/C01.py", "serves_properties": [p for p in props if p in CHECKS and CHECKS[p][1] == "PROG"], "kind_free_text": "all SSA programs up to n statements"},
            {"name": "CONF", "path": "/verif/mc/conf.py", "serves_properties": [p for p in props if p in CHECKS and CHECKS[p][1] == "CONF"], "kind_free_text": "exhaustive product of finite option/shape/value lattices per entry point"},
        ],
        "checks": checks,
        "not_applicable": [{"property_id": p, "reason": NA.get(p, "check not built yet (framework under construction; see DESIGN.md section 3)")} for p in props if p not in CHECKS],
        "notes": "All checks run the real mygrad from /repo/src in /venv/bin/python; exit 1 + VIOLATION line on a violation; KNOWN-FINDING lines for entries of known_findings.json.",
    }
    json.dump(m, open(os.path.join(HERE, "MANIFEST.json"), "w"), indent=1)
main()
