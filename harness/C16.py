"""C16 -- nnet layers equal their documented equations for every valid configuration (CONF engine).

(S) sliding_window_view: arrays of rank 1-3 with small sides x every window shape / step / dilation (int and
    tuple forms) x C / F / strided inputs: accepted iff the documented rule holds; when accepted every
    element equals arr[n..., g*step + w*dilation], the view is read-only and stays inside arr's buffer.
(V) conv_nd: full product of sizes / filter / stride / padding / dilation in 1-D, representative product
    in 2-D; max_pool likewise: valid configurations (every placement inside the padded data, placements
    tile it exactly) equal the naive nested-loop formula, invalid ones raise.
(F) batchnorm, softmax/logsoftmax, gru (dropout=0), losses vs. element-by-element formulas."""
import itertools
import math

import numpy as np

from mc import base, conf

PROPERTY = "C16"
LEVEL = "exploration"

VALS = [0.5, -0.75, 1.25, -1.5, 1.75, 0.25, -0.375, 0.625, -1.125, 1.375, -0.875, 1.625, -0.625, 0.875, 0.4375, -1.3125, 0.9375, -0.1875]


def vals(shape, off=0):
    n = int(np.prod(shape))
    return np.array([VALS[(i * 7 + off) % len(VALS)] + 0.001 * i for i in range(n)], dtype=np.float64).reshape(shape)


# ------------------------------------------------------------------ cells
def cells_swv(tier):
    side = 4 if tier == "quick" else 5
    shapes = [(s,) for s in range(1, side + 1)] + [(a, b) for a in (1, 2, 3) for b in range(1, side + 1)] + [(2, a, b) for a in (2, 3) for b in (2, 3, side)]
    for shape in shapes:
        for layout in ("C", "F", "strided", "newaxis"):
            if layout in ("F", "strided") and len(shape) == 1 and shape[0] < 2:
                continue
            if layout == "newaxis" and 1 not in shape:
                continue
            for wr in range(1, len(shape) + 2):  # window rank, incl. one too many
                tails = shape[-wr:] if wr <= len(shape) else (shape + (2,))[-wr:]
                for window in itertools.product(*[range(1, min(t, 3) + 2) for t in tails]):
                    steps = [1, 2, max(tails) + 1] + ([(1,) * wr, tuple(range(1, wr + 1))] if wr > 1 else [])
                    for step in steps:
                        dils = [None, 1, 2, 3] + ([tuple([2] + [1] * (wr - 1)), (1,) * wr] if wr > 1 else [(2,)])
                        for dil in dils:
                            yield ("S", shape, layout, window, step, dil)
    # type-error catalogue
    for bad in (("S", (4,), "C", 2, 1, None), ("S", (4,), "C", (0,), 1, None), ("S", (4,), "C", (2.0,), 1, None), ("S", (4,), "C", (2,), 0, None),
                ("S", (4,), "C", (2,), 1.5, None), ("S", (4,), "C", (2,), 1, 0), ("S", (4,), "C", (2,), 1, (1, 1)), ("S", (4,), "C", (2,), (1, 1), None),
                ("S", (4,), "C", (2,), -1, None), ("S", (4,), "C", (-2,), 1, None)):
        yield bad


CONV_DTYPES = [("float64", "int64"), ("float64", "float32"), ("float32", "float64"), ("int64", "float64"), ("float32", "float32"), ("int32", "int32"), ("float32", "int64"), ("float16", "float64")]


def cells_conv(tier):
    top = 6 if tier == "quick" else 7
    for N, C, F in ((1, 1, 1), (2, 1, 2), (1, 2, 1)):
        for x in range(1, top + 1):
            for w in (1, 2, 3):
                for s in (1, 2, 3):
                    for p in (0, 1, 2):
                        for d in (1, 2, 3):
                            if (N, C, F) != (1, 1, 1) and (x > 4 or p > 1):
                                continue
                            yield ("V", "conv", (N, C, F), (x,), (w,), (s,), (p,), (d,))
    axis_sets = [(3, 2, 1, 0, 1), (4, 2, 2, 0, 1), (5, 2, 1, 1, 2), (4, 3, 1, 1, 1), (5, 3, 2, 0, 1), (4, 2, 1, 0, 2), (5, 2, 3, 0, 1), (2, 3, 1, 0, 1), (3, 2, 2, 0, 1)]
    for a in axis_sets:
        for b in axis_sets:
            yield ("V", "conv", (1, 2, 2), (a[0], b[0]), (a[1], b[1]), (a[2], b[2]), (a[3], b[3]), (a[4], b[4]))
    # operand dtypes (data, filters) and containers: the formula does not depend on them
    for xdt, wdt in CONV_DTYPES:
        for kx, kw_ in (("t", "t"), ("a", "t"), ("t", "a")):
            for x in (3, 4, 5):
                for w in (1, 2, 3):
                    for s in (1, 2):
                        for p in (0, 1, 2):
                            for d in (1, 2):
                                yield ("V", "convdt", (xdt, wdt, kx, kw_), (2, 2, 2), (x,), (w,), (s,), (p,), (d,))
            yield ("V", "convdt", (xdt, wdt, kx, kw_), (1, 2, 2), (4, 3), (2, 3), (2, 1), (1, 0), (1, 1))
            yield ("V", "convdt", (xdt, wdt, kx, kw_), (1, 1, 2), (3, 3), (3, 3), (1, 1), (1, 1), (1, 1))
    for lead in ((), (2,), (1, 2)):
        for x in range(1, top + 1):
            for w in (1, 2, 3):
                for s in (1, 2, 3):
                    yield ("V", "pool", lead, (x,), (w,), (s,))
    for dt in ("float32", "int64", "float16"):
        for x in range(1, 6):
            for w in (1, 2, 3):
                for s in (1, 2, 3):
                    yield ("V", "pooldt", dt, (2,), (x,), (w,), (s,))
    for a in ((4, 2, 2), (5, 2, 1), (3, 3, 1), (5, 3, 2), (4, 2, 1), (4, 3, 2)):
        for b in ((4, 2, 2), (5, 2, 1), (3, 3, 1), (5, 3, 2), (2, 2, 2)):
            yield ("V", "pool", (1,), (a[0], b[0]), (a[1], b[1]), (a[2], b[2]))


def cells_formula(tier):
    for shape in ((3, 2), (2, 3, 2), (2, 2, 2, 2), (1, 2), (4, 1)):
        for g in (False, True):
            for b in (False, True):
                for eps in (0.0, 1e-3):
                    yield ("F", "batchnorm", shape, g, b, eps)
    for fn in ("softmax", "logsoftmax"):
        for shape in ((3,), (2, 3), (2, 2, 3), ()):
            for axis in [-1, 0, None] + ([1, (0, 1)] if len(shape) >= 2 else []):
                yield ("F", fn, shape, axis)
                yield ("F", fn, shape, axis, 300.0)  # logits of magnitude several hundred: exp(x) itself overflows
                yield ("F", fn, shape, axis, 0.0)  # all logits equal
    for T in (1, 2, 3):
        for N in (1, 2):
            for C in (1, 2):
                for D in (1, 2):
                    for s0 in (False, True):
                        yield ("F", "gru", T, N, C, D, s0)
    for loss in ("softmax_crossentropy", "negative_log_likelihood", "negative_log_likelihood_w", "multiclass_hinge", "margin_ranking_loss", "margin_ranking_loss_2d", "focal_loss", "softmax_focal_loss"):
        for N in (1, 2, 3):
            for Cc in (2, 3):
                for variant in (0, 1):
                    yield ("F", loss, N, Cc, variant)
                if loss in ("softmax_crossentropy", "softmax_focal_loss") and N >= 2:
                    yield ("F", loss, N, Cc, 2)  # rows whose logits are 1000 apart from each other (each row by itself is ordinary)
                    yield ("F", loss, N, Cc, 3)  # the same in float32 (rows 150 apart)


def cells(tier):
    return itertools.chain(cells_swv(tier), cells_conv(tier), cells_formula(tier))


# ------------------------------------------------------------------ sliding_window_view
def swv_valid(shape, window, step, dil):
    from numbers import Integral

    if not hasattr(window, "__iter__"):
        return False
    window = tuple(window)
    if not all(isinstance(i, Integral) and i > 0 for i in window) or len(window) > len(shape):
        return False
    if isinstance(step, Integral):
        step = (step,) * len(window)
    elif hasattr(step, "__iter__"):
        step = tuple(step)
    else:
        return False
    if len(step) != len(window) or not all(isinstance(i, Integral) and i > 0 for i in step):
        return False
    tail = shape[len(shape) - len(window):]
    if any(w > s for w, s in zip(window, tail)):
        return False
    if dil is not None:
        if isinstance(dil, Integral):
            dil = (dil,) * len(window)
        elif hasattr(dil, "__iter__"):
            dil = tuple(dil)
        else:
            return False
        if len(dil) != len(window) or not all(isinstance(i, Integral) and i > 0 for i in dil):
            return False
        if any(w * d > s for w, d, s in zip(window, dil, tail)):
            return False
    return True


def make_arr(shape, layout):
    a = np.arange(int(np.prod(shape)), dtype=np.float64).reshape(shape) + 1.0
    if layout == "F":
        return np.asfortranarray(a)
    if layout == "newaxis":
        # size-1 axes made with None-indexing: C-contiguous by NumPy's flags, but with a zero stride on those axes
        core = tuple(s for s in shape if s != 1)
        b = np.arange(int(np.prod(core)), dtype=np.float64).reshape(core) + 1.0
        return b[tuple(None if s == 1 else slice(None) for s in shape)]
    if layout == "strided":
        big = np.zeros(tuple(2 * s for s in shape))
        sl = tuple(slice(None, None, 2) for _ in shape)
        big[sl] = a
        return big[sl]
    return a


def check_swv(cell):
    from mygrad.nnet.layers.utils import sliding_window_view

    _, shape, layout, window, step, dil = cell
    arr = make_arr(shape, layout)
    keep = arr.copy()
    valid = swv_valid(shape, window, step, dil)
    try:
        out = sliding_window_view(arr, window, step, dil)
        err = None
    except (ValueError, TypeError) as e:
        err = base.exc_brief(e)
        del e
    except Exception as e:
        eb = base.exc_brief(e)
        del e
        return ("exception", "unexpected %s: %s" % eb)
    if not valid:
        return None if err is not None else ("accepted_invalid", "configuration violates the documented rule but was accepted; out shape %s" % (out.shape,))
    if err is not None:
        return ("rejected_valid", "%s: %s" % err)
    if out.flags.writeable:
        return ("writeable", "the view is writeable")
    k = len(window)
    st = (step,) * k if isinstance(step, int) else tuple(step)
    dl = (1,) * k if dil is None else ((dil,) * k if isinstance(dil, int) else tuple(dil))
    tail = shape[len(shape) - k:]
    grid = tuple((s - ((w - 1) * d + 1)) // t + 1 for s, w, d, t in zip(tail, window, dl, st))
    lead = shape[: len(shape) - k]
    if out.shape != grid + lead + tuple(window):
        return ("shape", "out shape %s, expected %s" % (out.shape, grid + lead + tuple(window)))
    for g in np.ndindex(*grid):
        for n in np.ndindex(*lead):
            for w in np.ndindex(*window):
                src = n + tuple(gi * ti + wi * di for gi, ti, wi, di in zip(g, st, w, dl))
                if out[g + n + w] != keep[src]:
                    return ("value", "out[%s] = %r but arr[%s] = %r" % (g + n + w, out[g + n + w], src, keep[src]))
    if arr.flags.c_contiguous and out.size:
        lo, hi = np.lib.array_utils.byte_bounds(out)
        alo, ahi = np.lib.array_utils.byte_bounds(arr)
        if lo < alo or hi > ahi:
            return ("out_of_bounds", "view spans bytes [%d, %d) outside arr's [%d, %d)" % (lo, hi, alo, ahi))
    if not np.array_equal(arr, keep):
        return ("input_changed", "")
    return None


# ------------------------------------------------------------------ conv / pool
def conv_valid(x, w, s, p, d):
    ok = True
    for xi, wi, si, pi, di in zip(x, w, s, p, d):
        ext = (wi - 1) * di + 1
        if xi + 2 * pi < ext or (xi + 2 * pi - ext) % si != 0:
            ok = False
    return ok


def naive_conv(X, W, s, p, d):
    N, C = X.shape[:2]
    F = W.shape[0]
    k = X.ndim - 2
    xp = np.pad(X, ((0, 0), (0, 0)) + tuple((pi, pi) for pi in p))
    grid = tuple((xp.shape[2 + i] - ((W.shape[2 + i] - 1) * d[i] + 1)) // s[i] + 1 for i in range(k))
    out = np.zeros((N, F) + grid)
    for n in range(N):
        for f in range(F):
            for g in np.ndindex(*grid):
                acc = 0.0
                for c in range(C):
                    for wi in np.ndindex(*W.shape[2:]):
                        idx = tuple(g[i] * s[i] + wi[i] * d[i] for i in range(k))
                        acc += W[(f, c) + wi] * xp[(n, c) + idx]
                out[(n, f) + g] = acc
    return out


def check_conv(cell):
    import mygrad as mg
    from mygrad.nnet.layers import conv_nd, max_pool

    if cell[1] == "pooldt":
        _, _, dt, lead, x, w, s = cell
        X = (vals(lead + x, 2) * 4).astype(dt)
        valid = all(xi >= wi and (xi - wi) % si == 0 for xi, wi, si in zip(x, w, s))
        try:
            out = max_pool(mg.tensor(X), w, s[0])
            err = None
        except Exception as e:
            err = base.exc_brief(e)
            del e
        if not valid:
            return None if err is not None else ("accepted_invalid", "pooling placements do not tile the data, yet accepted")
        if err is not None:
            return ("rejected_valid", "%s: %s" % err)
        grid = tuple((xi - wi) // si + 1 for xi, wi, si in zip(x, w, s))
        ref = np.zeros(lead + grid, dtype=dt)
        for n in np.ndindex(*lead):
            for g in np.ndindex(*grid):
                ref[n + g] = max(X[n + tuple(g[i] * s[i] + wi[i] for i in range(len(x)))] for wi in np.ndindex(*w))
        if out.shape != ref.shape or out.dtype != ref.dtype or not np.array_equal(out.data, ref):
            return ("value", "max_pool of %s data differs from the naive formula (dtype %s)" % (dt, out.dtype))
        return None
    if cell[1] == "convdt":
        _, _, (xdt, wdt, kx, kw_), (N, C, F), x, w, s, p, d = cell
        X = (vals((N, C) + x, 1) * 3).astype(xdt)
        W = (vals((F, C) + w, 5) * 3).astype(wdt)
        valid = conv_valid(x, w, s, p, d)
        try:
            out = conv_nd(mg.tensor(X) if kx == "t" else X, mg.tensor(W) if kw_ == "t" else W, stride=s if len(s) > 1 else s[0], padding=p if len(p) > 1 else p[0], dilation=d if len(d) > 1 else d[0])
            err = None
        except Exception as e:
            err = base.exc_brief(e)
            del e
        if not valid:
            return None if err is not None else ("accepted_invalid", "placements do not tile the padded data, yet accepted with out shape %s" % (out.shape,))
        if err is not None:
            return ("rejected_valid", "x=%s w=%s stride=%s pad=%s dil=%s: %s: %s" % ((x, w, s, p, d) + err))
        ref = naive_conv(X.astype(np.float64), W.astype(np.float64), s, p, d)
        rt = np.result_type(X, W)
        tol = {"f": {2: 2e-2, 4: 1e-5, 8: 1e-12}[rt.itemsize], "i": 0}[rt.kind]
        if out.dtype != rt:
            return ("dtype", "conv_nd of %s data with %s filters returns %s (the products and sums of the formula are %s)" % (xdt, wdt, out.dtype, rt))
        if out.shape != ref.shape or not np.allclose(out.data, ref, rtol=tol, atol=tol * max(1.0, float(np.abs(ref).max(initial=0)))):
            return ("value", "conv_nd of %s data with %s filters differs from the naive formula by %g" % (xdt, wdt, float(np.abs(out.data - ref).max())))
        return None
    if cell[1] == "conv":
        _, _, (N, C, F), x, w, s, p, d = cell
        X = vals((N, C) + x, 1)
        W = vals((F, C) + w, 5)
        valid = conv_valid(x, w, s, p, d)
        try:
            out = conv_nd(mg.tensor(X), mg.tensor(W), stride=s if len(s) > 1 else s[0], padding=p if len(p) > 1 else p[0], dilation=d if len(d) > 1 else d[0])
            err = None
        except Exception as e:
            err = base.exc_brief(e)
            del e
        if not valid:
            return None if err is not None else ("accepted_invalid", "placements do not tile the padded data, yet accepted with out shape %s" % (out.shape,))
        if err is not None:
            return ("rejected_valid", "x=%s w=%s stride=%s pad=%s dil=%s: %s: %s" % ((x, w, s, p, d) + err))
        ref = naive_conv(X, W, s, p, d)
        if out.shape != ref.shape or not np.allclose(out.data, ref, rtol=1e-12, atol=1e-12):
            return ("value", "conv_nd differs from the naive formula")
        return None
    _, _, lead, x, w, s = cell
    X = vals(lead + x, 2)
    valid = all(xi >= wi and (xi - wi) % si == 0 for xi, wi, si in zip(x, w, s))
    try:
        out = max_pool(mg.tensor(X), w, s if len(s) > 1 else s[0])
        err = None
    except Exception as e:
        err = base.exc_brief(e)
        del e
    if not valid:
        return None if err is not None else ("accepted_invalid", "pooling placements do not tile the data, yet accepted")
    if err is not None:
        return ("rejected_valid", "%s: %s" % err)
    grid = tuple((xi - wi) // si + 1 for xi, wi, si in zip(x, w, s))
    ref = np.zeros(lead + grid)
    for n in np.ndindex(*lead):
        for g in np.ndindex(*grid):
            ref[n + g] = max(X[n + tuple(g[i] * s[i] + wi[i] for i in range(len(x)))] for wi in np.ndindex(*w))
    if out.shape != ref.shape or not np.array_equal(out.data, ref):
        return ("value", "max_pool differs from the naive formula")
    return None


# ------------------------------------------------------------------ formulas
def sig(v):
    return 1.0 / (1.0 + math.exp(-v))


def close(a, b, tol=1e-11):
    a, b = np.asarray(a, dtype=float), np.asarray(b, dtype=float)
    return a.shape == b.shape and np.allclose(a, b, rtol=tol, atol=tol)


def check_formula(cell):
    import mygrad as mg
    from mygrad.nnet import activations as A
    from mygrad.nnet import layers as L
    from mygrad.nnet import losses as Lo

    kind = cell[1]
    if kind == "batchnorm":
        _, _, shape, g, b, eps = cell
        X = vals(shape, 3)
        Cn = shape[1]
        gam = vals((Cn,), 4) if g else None
        bet = vals((Cn,), 9) if b else None
        out = L.batchnorm(mg.tensor(X), gamma=None if gam is None else mg.tensor(gam), beta=None if bet is None else mg.tensor(bet), eps=eps)
        ref = np.zeros(shape)
        for c in range(Cn):
            sel = [X[idx] for idx in np.ndindex(*shape) if idx[1] == c]
            mu = sum(sel) / len(sel)
            var = sum((v - mu) ** 2 for v in sel) / len(sel)
            if var + eps == 0:
                return ("skip", "zero variance with eps=0")
            for idx in np.ndindex(*shape):
                if idx[1] == c:
                    y = (X[idx] - mu) / math.sqrt(var + eps)
                    ref[idx] = y * (gam[c] if g else 1.0) + (bet[c] if b else 0.0)
        return None if close(out.data, ref, 1e-9) else ("value", "batchnorm differs from (x-E[x])/sqrt(Var[x]+eps)*gamma+beta")
    if kind in ("softmax", "logsoftmax"):
        shape, axis = cell[2], cell[3]
        X = vals(shape, 2) * (cell[4] if len(cell) > 4 else 1.0)
        f = getattr(A, kind)
        try:
            out = f(mg.tensor(X), axis=axis)
        except Exception as e:
            eb = base.exc_brief(e)
            del e
            return ("exception", "%s: %s" % eb)
        ax = tuple(range(len(shape))) if axis is None else ((axis,) if isinstance(axis, int) else axis)
        ax = tuple(a % max(len(shape), 1) for a in ax) if shape else ()
        ref = np.zeros(shape)
        for idx in np.ndindex(*shape):
            lane = [j for j in np.ndindex(*shape) if all(j[k] == idx[k] for k in range(len(shape)) if k not in ax)]
            m = max(X[j] for j in lane)  # exp(x - m) / sum(exp(x_j - m)): the documented quotient with numerator and denominator divided by exp(m)
            den = sum(math.exp(X[j] - m) for j in lane)
            ref[idx] = (X[idx] - m) - math.log(den) if kind == "logsoftmax" else math.exp(X[idx] - m) / den
        return None if close(out.data, ref) else ("value", "%s(axis=%r) differs from exp(x)/sum(exp(x))" % (kind, axis))
    if kind == "gru":
        _, _, T, N, C, D, s0 = cell
        X = vals((T, N, C), 0)
        P = {}
        o = 3
        for gname in "zrh":
            P["U" + gname], P["W" + gname], P["b" + gname] = vals((C, D), o), vals((D, D), o + 2), vals((D,), o + 5)
            o += 7
        S0 = vals((N, D), 11) if s0 else np.zeros((N, D))
        out = L.gru(X, P["Uz"], P["Wz"], P["bz"], P["Ur"], P["Wr"], P["br"], P["Uh"], P["Wh"], P["bh"], s0=S0 if s0 else None)
        ref = np.zeros((T + 1, N, D))
        ref[0] = S0
        for t in range(T):
            for n in range(N):
                prev = ref[t, n]
                z = [sig(sum(X[t, n, c] * P["Uz"][c, j] for c in range(C)) + sum(prev[k] * P["Wz"][k, j] for k in range(D)) + P["bz"][j]) for j in range(D)]
                r = [sig(sum(X[t, n, c] * P["Ur"][c, j] for c in range(C)) + sum(prev[k] * P["Wr"][k, j] for k in range(D)) + P["br"][j]) for j in range(D)]
                h = [math.tanh(sum(X[t, n, c] * P["Uh"][c, j] for c in range(C)) + sum(r[k] * prev[k] * P["Wh"][k, j] for k in range(D)) + P["bh"][j]) for j in range(D)]
                for j in range(D):
                    ref[t + 1, n, j] = (1 - z[j]) * h[j] + z[j] * prev[j]
        return None if close(out.data, ref, 1e-10) else ("value", "gru differs from the documented recurrence")
    # ---- losses
    _, loss, N, Cc, variant = cell
    X = vals((N, Cc), 1 + variant)
    tol = 1e-10
    if variant in (2, 3):
        X = vals((N, Cc), 1) + np.arange(N)[:, None] * (1000.0 if variant == 2 else 150.0)
        if variant == 3:
            X, tol = X.astype(np.float32), 1e-5
        variant = 0
    y = np.array([(i + variant) % Cc for i in range(N)])
    # log-softmax per row, written with the row maximum taken out of numerator and denominator (same quotient)
    rmax = [max(float(X[i, k]) for k in range(Cc)) for i in range(N)]
    lsm = np.array([[float(X[i, j]) - rmax[i] - math.log(sum(math.exp(float(X[i, k]) - rmax[i]) for k in range(Cc))) for j in range(Cc)] for i in range(N)])
    if loss == "softmax_crossentropy":
        out = Lo.softmax_crossentropy(mg.tensor(X), y)
        ref = -sum(lsm[i, y[i]] for i in range(N)) / N
    elif loss == "negative_log_likelihood":
        out = Lo.negative_log_likelihood(mg.tensor(lsm), y)
        ref = -sum(lsm[i, y[i]] for i in range(N)) / N
    elif loss == "negative_log_likelihood_w":
        wts = np.abs(vals((Cc,), 2)) + 0.25
        out = Lo.negative_log_likelihood(mg.tensor(lsm), y, weights=wts)
        ref = -sum(lsm[i, y[i]] * wts[y[i]] for i in range(N)) / N
    elif loss == "multiclass_hinge":
        hinge = 1.0 if variant == 0 else 0.5
        out = Lo.multiclass_hinge(mg.tensor(X), y, hinge=hinge)
        ref = sum(sum(max(0.0, X[i, j] - X[i, y[i]] + hinge) for j in range(Cc) if j != y[i]) for i in range(N)) / N
    elif loss in ("margin_ranking_loss", "margin_ranking_loss_2d"):
        shp = (N,) if loss == "margin_ranking_loss" else (N, Cc)
        x1, x2 = vals(shp, 0), vals(shp, 5)
        yy = np.array([1 if (i + variant) % 2 == 0 else -1 for i in range(N)])
        margin = 0.5 if variant == 0 else 0.0
        out = Lo.margin_ranking_loss(mg.tensor(x1), mg.tensor(x2), yy, margin=margin)
        tot, cnt = 0.0, 0
        for idx in np.ndindex(*shp):
            tot += max(0.0, margin - yy[idx[0]] * (x1[idx] - x2[idx]))
            cnt += 1
        ref = tot / cnt
    else:
        alpha, gamma = (0.75, 2.0) if variant == 0 else (1.0, 0.0)
        sm = np.exp(lsm)
        if loss == "focal_loss":
            out = Lo.focal_loss(mg.tensor(sm), y, alpha=alpha, gamma=gamma)
        else:
            out = Lo.softmax_focal_loss(mg.tensor(X), y, alpha=alpha, gamma=gamma)
        ref = np.array([-alpha * (1 - sm[i, y[i]]) ** gamma * math.log(sm[i, y[i]]) for i in range(N)])
    return None if close(out.data, ref, tol) else ("value", "%s: got %s, formula gives %s" % (loss, out.data, ref))


def check(cell):
    return {"S": check_swv, "V": check_conv, "F": check_formula}[cell[0]](cell)


def nontrivial(cell):
    return True


def outcome(cell):
    if cell[0] == "S":
        return "ok:swv:" + ("valid" if swv_valid(cell[1], cell[3], cell[4], cell[5]) else "rejected")
    if cell[0] == "V" and cell[1] == "conv":
        return "ok:conv:" + ("valid" if conv_valid(*cell[3:]) else "rejected")
    if cell[0] == "V" and cell[1] == "convdt":
        return "ok:convdt:" + ("valid" if conv_valid(*cell[4:]) else "rejected")
    return "ok:" + str(cell[1])


def signature(cell, f):
    return base.stable_hash((cell[0], cell[1] if cell[0] != "S" else "", f[0]))


def plan(tier, seed):
    me = __import__("harness.C16", fromlist=["x"])
    return conf.make_plan(
        me, tier, seed, nchunks=48,
        rule="(S) every (shape, layout, window, step, dilation) cell incl. invalid ones and a type-error catalogue; (V) conv_nd full 1-D product and "
        "per-axis representative product in 2-D, max_pool likewise, valid and invalid, plus operand dtype x container cells; (F) batchnorm/softmax/logsoftmax/gru/loss lattices vs formulas "
        "evaluated with Python floats; every cell is distinct",
        bounds={"tier": tier},
        assumptions=["gru is checked for dropout=0 only (dropout uses the global NumPy RNG)", "float64; tolerance 1e-9..1e-12 relative against nested-loop evaluation"],
    )


def affinity(cell):
    return 0 if cell[0] == "F" and cell[1] == "gru" else None


def replay(case):
    return conf.replay_cell(__import__("harness.C16", fromlist=["x"]), case)


def finalize(v):
    return conf.finalize_cell(__import__("harness.C16", fromlist=["x"]), v)


def m_valid_dilated_conv_rejected(v):
    """F-C16: conv_nd delegates to sliding_window_view, whose `window*dilation <= size` rule rejects valid
    placements with (w-1)*d+1 <= x+2p < w*d in some axis."""
    f = v.get("failure") or {}
    cell = (v.get("case") or {}).get("cell")
    if f.get("kind") != "rejected_valid" or not cell or cell[0] != "V" or cell[1] not in ("conv", "convdt"):
        return False
    x, w, s, p, d = cell[3:] if cell[1] == "conv" else cell[4:]
    band = any((wi - 1) * di + 1 <= xi + 2 * pi < wi * di for xi, wi, pi, di in zip(x, w, p, d))
    return band and "dilated window" in f.get("detail", "")


MATCHERS = {"valid_dilated_conv_rejected": m_valid_dilated_conv_rejected}
