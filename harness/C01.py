"""C01 -- backward() is the exact total derivative of the recorded computation (PROG engine).

All well-typed straight-line programs v_k = op(v_i[, v_j]) up to n statements over two tensor
leaves (shapes (2,) and (2,1): forces broadcasting), a constant ndarray and a Python scalar; every
program (= every prefix) is differentiated with L = its last statement and the .grad of every leaf
and every intermediate is compared with the complex-step derivative of the NumPy shadow program;
tensors L does not depend on must have .grad None."""
import numpy as np

from mc import base, csad, explore
from mc.hist import CONSTS, OPS1, OPS2, VIEWS, Model, ddmin, render, script, tuplify

PROPERTY = "C01"
LEVEL = "model_checking"

INIT = [("a", (2,), 0, False), ("b", (2, 1), 4, False)]
# second world: a genuinely 2-D leaf (so that transposes are F-ordered) and a 0-d leaf equal to 2.0
INIT_M = [("m", (2, 2), 2, False), ("p", (), 0, False, ("val", 2.0))]
CORE = dict(ops2=("add", "sub", "mul"), ops1=("neg", "sum0"), views=("rev",), consts=("A2", "s2"))
FULL = dict(
    ops2=("add", "sub", "mul", "div", "matmul", "max", "cat", "where", "addw", "subw", "mseq_xyx", "aseq_xyx"),
    ops1=("neg", "sum0", "sq2", "exp", "cube", "sum", "mean_1", "mseq3", "mseq4", "aseq3"),
    views=("rev", "T", "flat", "na", "i0"),
    consts=("A2", "s2"),
)
MAT = dict(
    ops2=("add", "mul", "pow", "matmul", "max"),
    ops1=("sq2", "exp", "maxall", "minall", "max0", "sum0", "mean_1"),
    views=("T", "flat", "rev", "i0", "c1"),
    consts=("s2",),
)
ALPH = {"core": CORE, "full": FULL, "mat": MAT}
INITS = {"core": INIT, "full": INIT, "mat": INIT_M}
BOUNDS = {"quick": [("full", 2), ("core", 3), ("mat", 2)], "thorough": [("full", 3), ("core", 4), ("mat", 3)]}
MAX_ELEMS = 8


def enabled(m, cfg, out):
    sts = []
    live = list(m.order)
    for s in live:
        shp = m.shape(s)
        for v in cfg["views"]:
            if VIEWS[v][3](shp):
                sts.append(("view", out, s, v))
        for o in cfg["ops1"]:
            if OPS1[o][3](shp):
                if o in ("maxall", "minall", "max0") and np.unique(m.a[s].real).size != m.a[s].size:
                    continue  # ties: outside the differentiable domain
                sts.append(("op1", out, s, o))
    operands = [("t", n) for n in live] + [("c", c) for c in cfg["consts"]]
    for o in cfg["ops2"]:
        f = OPS2[o][2]
        for x in operands:
            for y in operands:
                if x[0] == "c" and y[0] == "c":
                    continue
                xv, yv = m.value_of(x), m.value_of(y)
                if o in ("max", "min"):
                    try:
                        if np.any(np.real(xv) == np.real(yv)):
                            continue  # a tie: outside the differentiable domain
                    except ValueError:
                        continue
                if o == "div" and np.any(np.abs(yv) < 0.2):
                    continue
                if o == "pow" and (np.any(np.real(xv) <= 0.05) or np.any(np.abs(yv) > 4)):
                    continue  # d/dy x**y needs x > 0
                try:
                    r = f(xv, yv)
                except (ValueError, TypeError):
                    continue
                if np.size(r) > MAX_ELEMS or np.any(np.abs(r) > 1e6):
                    continue
                sts.append(("op2", out, x, y, o))
    return sts


def grad_check(init, h, seed, impl):
    INIT = init
    if not h:
        return None
    last = h[-1][1]
    try:
        impl.t[last].backward()
    except Exception as e:
        eb = base.exc_brief(e)
        del e
        return ("exception", "backward", "%s: %s" % eb)
    m0, exp = csad.expected_grads(init, h, seed, terminal=lambda m: m.a[last].sum())
    for n in impl.order:
        g = impl.t[n].grad
        if m0.const[n] or not m0.reaches(n, last):
            if g is not None:
                return ("grad_on_independent", n, "got %s" % explore.fmt(g))
            continue
        if g is None:
            return ("grad_none", n, "expected %s" % explore.fmt(exp[n]))
        if not csad.close(g, exp[n]):
            return ("grad_value", n, "impl %s expected %s" % (explore.fmt(g), explore.fmt(exp[n])))
    return None


def _dfs(aname, prefix, depth, acc, seed):
    cfg = ALPH[aname]
    INIT = INITS[aname]
    leaves = [i[0] for i in INIT]
    stack = [list(prefix)]
    while stack:
        h = stack.pop()
        r = explore.Run(INIT, h, seed, check_from=max(0, len(h) - 1), oracle=explore.c04_check_approx)
        acc.inc("evaluations")
        acc.inc("transitions", 1 if h else 0)
        if r.failure is not None:
            acc.violation({"case": {"init": INIT, "history": h, "seed": seed}, "failure": r.failure})
            acc.outcome("fail:" + r.failure[2])
            r.close()
            continue
        f = grad_check(INIT, h, seed, r.impl)
        if f is not None:
            acc.violation({"case": {"init": INIT, "history": h, "seed": seed}, "failure": (len(h), ("backward",)) + f})
            acc.outcome("fail:" + f[0])
        else:
            acc.outcome("ok")
        acc.inc("traces")
        m = r.model
        acc.states.add(m.digest())
        if h:
            last = h[-1][1]
            # non-trivial: some leaf reaches L by >= 2 paths or through a broadcast
            uses = {}
            for st in h:
                for u in ([st[2]] if st[0] != "op2" else [v[1] for v in (st[2], st[3]) if v[0] == "t"]):
                    uses[u] = uses.get(u, 0) + 1
            bc = any(m.shape(st[1]) != m.shape(u) for st in h if st[0] == "op2" for u in [v[1] for v in (st[2], st[3]) if v[0] == "t"])
            if (bc or any(c >= 2 for c in uses.values())) and any(m.reaches(l, last) for l in leaves):
                acc.nontrivial.add(base.stable_hash(h))
        if len(acc.samples) < 2 and len(h) == depth and h:
            acc.samples.append("; ".join(render(s) for s in h) + "; %s.backward()" % h[-1][1])
        if len(h) < depth:
            ext = enabled(m, cfg, "v%d" % len(h))
            r.close()
            for st in reversed(ext):
                stack.append(h + [st])
        else:
            r.close()


# ------------------------------------------------------------------ compositions over the whole op catalogue
# every plain case f of the op catalogue (specs/ops.py: all differentiable functions x shapes x operand values incl. the extreme ones)
# inside four program templates; the reference is the complex-step derivative of the same composition of the case's functional model
TEMPLATES = {
    "fan": (lambda mg, f, xs: (lambda u: u * u + u)(f(*xs)), lambda f, xs: (lambda u: u * u + u)(f(*xs))),
    "diamond": (lambda mg, f, xs: f(*xs) * xs[0].sum(), lambda f, xs: f(*xs) * xs[0].sum()),
    "pre": (lambda mg, f, xs: f(*[+x for x in xs]), lambda f, xs: f(*xs)),
    "post": (lambda mg, f, xs: mg.exp(f(*xs) * 0.125), lambda f, xs: np.exp(f(*xs) * 0.125)),
}
_CAT = {}


def cat_cases(tier):
    from specs import ops

    if tier not in _CAT:
        out = []
        for i, c in enumerate(ops.all_cases(tier)):
            if c.get("mask") is not None or c.get("conv") or c.get("dtype") or c.get("zero_where_input_zero") or c.get("gones"):
                continue
            if any(k != "t" for k in (c.get("kinds") or ())):
                continue
            if any(a.ndim and not a.flags.c_contiguous for a in c["operands"]) or any(a.size == 0 for a in c["operands"]):
                continue
            out.append((i, c))
        _CAT[tier] = out
    return _CAT[tier]


def check_cat(tier, k, tname):
    import mygrad as mg
    from harness import C02

    i, case = cat_cases(tier)[k]
    base.reset_mygrad()
    arrays = [np.array(a, dtype=np.float64) for a in case["operands"]]
    xs = [mg.tensor(a.copy()) for a in arrays]
    build, model = TEMPLATES[tname]
    try:
        L = build(mg, case["mg"], xs)
        L.backward()
    except Exception as e:
        eb = base.exc_brief(e)
        del e
        return ("exception", "%s: %s" % eb)
    shadow = lambda *a: model(case["shadow"], list(a))  # noqa: E731
    with np.errstate(all="ignore"):
        ref = np.asarray(shadow(*arrays))
    if not np.all(np.isfinite(np.real(ref))):
        return ("skip", "the composition overflows at these values")
    if case["op"] != "arctan2" and not np.allclose(L.data, np.real(ref), rtol=1e-10, atol=1e-10):
        return ("forward_value", "forward %s, model %s" % (explore.fmt(L.data), explore.fmt(np.real(ref))))
    for j, x in enumerate(xs):
        exp = C02.cs_expected(shadow, arrays, j, np.ones(np.shape(ref)))
        if not np.all(np.isfinite(exp)):
            continue  # not differentiable here (or the model itself overflows)
        g = x.grad
        if g is None:
            return ("grad_none", "operand %d of %s in template %s: expected %s" % (j, case["name"], tname, explore.fmt(exp)))
        if not C02.compare(g, exp, 2e-8):
            return ("grad_value", "operand %d of %s in template %s: impl %s expected %s" % (j, case["name"], tname, explore.fmt(g), explore.fmt(exp)))
    return None


def run_cat_task(task):
    _, tier, stride, offset = task
    acc = base.Acc()
    n = len(cat_cases(tier))
    for k in range(offset, n, stride):
        for tname in TEMPLATES:
            r = check_cat(tier, k, tname)
            acc.inc("evaluations")
            if r is not None and r[0] == "skip":
                acc.outcome("skip: " + r[1])
                continue
            acc.inc("traces")
            acc.inc("transitions")
            acc.nontrivial.add(base.stable_hash(("cat", k, tname)))
            acc.states.add(hash(("cat", k, tname)))
            if r is not None:
                acc.violation({"case": {"cat": [tier, k, tname, cat_cases(tier)[k][1]["name"]]}, "failure": (1, ("backward",)) + r[:1] + ("", r[1])})
                acc.outcome("fail:" + r[0])
            else:
                acc.outcome("ok:catalogue composition")
    return acc


def run_task(task):
    if task[0] == "cat":
        return run_cat_task(task)
    aname, prefix, depth, seed = task
    acc = base.Acc()
    _dfs(aname, prefix, depth, acc, seed)
    for v in acc.violations:
        v["case"]["alphabet"] = aname
    return acc


def _prefixes(cfg, k, seed, INIT=INIT):
    out = [[]]
    for _ in range(k):
        nxt = []
        for h in out:
            m = Model(INIT, seed=seed)
            for st in h:
                m.apply(st)
            nxt += [h + [st] for st in enabled(m, cfg, "v%d" % len(h))]
        out = nxt
    return out


def plan(tier, seed):
    tasks = []
    for aname, depth in BOUNDS[tier]:
        k = 1 if depth <= 2 else 2
        for p in _prefixes(ALPH[aname], k, seed, INITS[aname]):
            tasks.append((aname, p, depth, seed))
        # programs shorter than k statements are prefixes of tasks; check them once here
        for kk in range(k):
            for p in _prefixes(ALPH[aname], kk, seed, INITS[aname]):
                tasks.append((aname, p, kk, seed))
    tasks += [("cat", "quick", 32, o) for o in range(32)]
    return dict(
        tasks=tasks,
        run=run_task,
        rule="all straight-line SSA programs up to n statements (operands range over all earlier values, both operand "
        "orders, constants and scalars included); non-trivial = a leaf reaches L with operand repetition/fan-out or through a broadcast; "
        "plus every plain case of the op catalogue (every differentiable function x shapes x value tables incl. extreme values) inside 4 "
        "program templates (fan-out of the result, diamond through the first operand, non-leaf operands, chain after)",
        bounds={a: d for a, d in BOUNDS[tier]},
        assumptions=[
            "leaves a:(2,), b:(2,1) float64; constants ndarray (2,) and scalar 2.0; results limited to <=8 elements",
            "reference = complex-step derivative of the NumPy shadow program, tolerance 1e-9; maximum() only off ties",
        ],
    )


def _fails(h, seed, INIT=INIT):
    r = explore.Run(INIT, h, seed, oracle=explore.c04_check_approx)
    if r.failure is not None:
        f = r.failure
        r.close()
        return f
    f = grad_check(INIT, h, seed, r.impl)
    r.close()
    return None if f is None else (len(h), ("backward",)) + f


def replay(case):
    if "cat" in case:
        tier, k, tname, name = case["cat"]
        if cat_cases(tier)[k][1]["name"] != name:
            return []
        r = check_cat(tier, k, tname)
        return [dict(failure=(1, ("backward",)) + r[:1] + ("", r[1]))] if r is not None and r[0] != "skip" else []
    h = [tuplify(s) for s in case["history"]]
    f = _fails(h, case.get("seed", 0), INITS[case.get("alphabet", "core")])
    return [dict(failure=f)] if f is not None else []


def finalize(v):
    import harness.C04 as C04

    case = v["case"]
    if "cat" in case:
        r = replay(case)
        if not r:
            return None
        f = r[0]["failure"]
        return dict(case=case, failure=dict(kind=f[2], detail=f[4]), script="# catalogue case %r in template %r (harness/C01.py TEMPLATES)\n# %s: %s\n" % (case["cat"][3], case["cat"][2], f[2], f[4]),
                    signature=base.stable_hash(("cat", case["cat"][3].split("(")[0].split(" ")[0], case["cat"][2], f[2])))
    seed = case.get("seed", 0)
    INIT = INITS[case.get("alphabet", "core")]
    h = [tuplify(s) for s in case["history"]]
    g_fails = globals()["_fails"]

    def _fails(hh, sd):
        return g_fails(hh, sd, INIT)

    f0 = _fails(h, seed)
    if f0 is None:
        return None
    kind = f0[2]
    # the last statement is L: keep it, delete others
    def fails(c):
        if not c or c[-1] != h[-1]:
            return False
        f = _fails(c, seed)
        return f is not None and f[2] == kind

    hm = ddmin(h, fails, INIT)
    f = _fails(hm, seed)
    tail = "%s.backward()\n# %s: %s %s\n" % (hm[-1][1], f[2], f[3], f[4])
    return dict(
        case=dict(init=INIT, history=hm, seed=seed, alphabet=case.get("alphabet", "core")),
        failure=dict(step=f[0], kind=f[2], where=f[3], detail=f[4]),
        script=script(INIT, hm, seed, tail),
        signature=C04.signature(hm, f),
        min_history=hm,
    )


MATCHERS = {}

from harness.C04 import presig  # noqa
