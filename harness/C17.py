"""C17 -- tensor construction and conversion: copying, aliasing and dtype rules (CONF engine).

Lattice A: input kind x dtype x constant x copy x ndmin x entry point {tensor, Tensor, astensor, asarray}.
Lattice B: Tensor.copy / Tensor.astype on tensors with and without graph.
Lattice C: every explicit-argument cell of the creation routines vs. the NumPy namesake."""
import itertools

import numpy as np

from mc import base, conf

PROPERTY = "C17"
LEVEL = "exploration"

KINDS = ["py_int", "py_float", "py_bool", "list_f", "list_i", "nested", "nd_f64", "nd_f32", "nd_f16", "nd_i64", "nd_bool", "nd_0d",
         "nd_readonly", "nd_noncontig", "t_plain", "t_graph", "t_const", "t_view", "t_int",
         # inputs that are not ndarrays but hand NumPy their memory without a copy (buffer protocol, __array__), and layouts asarray must keep
         "buf_array", "buf_memview", "obj_array", "obj_array_iface", "nd_subclass", "nd_F", "nd_T", "nd_rev", "t_T", "t_F", "t_complex"]  # t_complex: a complex tensor made while tracking was off
DTYPES = [None, "float16", "float32", "float64", "int32", "bool", "complex128", ">f8", ">i4"]  # incl. byte-swapped (non-native) dtypes
ENTRIES = ["tensor", "Tensor", "astensor", "asarray"]


def make_input(kind):
    import mygrad as mg

    if kind == "py_int":
        return 3
    if kind == "py_float":
        return 2.5
    if kind == "py_bool":
        return True
    if kind == "list_f":
        return [1.0, -2.5, 3.0]
    if kind == "list_i":
        return [1, 2, 3]
    if kind == "nested":
        return [[1.0, 2.0], [3.0, 4.5]]
    if kind == "nd_f64":
        return np.array([1.0, -2.5, 3.0])
    if kind == "nd_f32":
        return np.array([1.0, -2.5, 3.0], dtype=np.float32)
    if kind == "nd_f16":
        return np.array([1.0, -2.5, 3.0], dtype=np.float16)
    if kind == "nd_i64":
        return np.array([1, 2, 3], dtype=np.int64)
    if kind == "nd_bool":
        return np.array([True, False, True])
    if kind == "nd_0d":
        return np.array(1.5)
    if kind == "nd_readonly":
        a = np.array([1.0, -2.5, 3.0])
        a.flags.writeable = False
        return a
    if kind == "nd_noncontig":
        return np.arange(12.0).reshape(3, 4)[::2, ::3]
    if kind == "t_plain":
        return mg.tensor([1.0, -2.5, 3.0])
    if kind == "t_graph":
        x = mg.tensor([1.0, -2.5, 3.0])
        t = x * 2.0
        t.hold = x  # keep the leaf alive
        return t
    if kind == "t_const":
        return mg.tensor([1.0, -2.5, 3.0], constant=True)
    if kind == "t_view":
        x = mg.tensor([1.0, -2.5, 3.0, 4.0])
        v = x[1:]
        v.hold = x
        return v
    if kind == "t_int":
        return mg.tensor([1, 2, 3])
    if kind == "t_complex":
        with mg.no_autodiff:
            return mg.tensor(np.array([1.0 + 2.0j, -0.5j]))
    if kind == "buf_array":
        import array

        return array.array("d", [1.0, -2.5, 3.0])
    if kind == "buf_memview":
        return memoryview(bytearray(np.array([1.0, -2.5, 3.0]).tobytes())).cast("d")
    if kind == "obj_array":
        return _HasArray(np.array([1.0, -2.5, 3.0]))
    if kind == "obj_array_iface":
        return _HasIface(np.array([1.0, -2.5, 3.0]))
    if kind == "nd_subclass":
        return np.array([1.0, -2.5, 3.0]).view(_Sub)
    if kind == "nd_F":
        return np.asfortranarray(np.arange(6.0).reshape(2, 3))
    if kind == "nd_T":
        return np.arange(6.0).reshape(2, 3).T
    if kind == "nd_rev":
        return np.array([1.0, -2.5, 3.0])[::-1]
    if kind == "t_T":
        x = mg.tensor(np.arange(6.0).reshape(2, 3))
        v = x.T
        v.hold = x
        return v
    if kind == "t_F":
        return mg.tensor(np.asfortranarray(np.arange(6.0).reshape(2, 3)), copy=False)
    raise KeyError(kind)


class _Sub(np.ndarray):
    pass


class _HasArray:
    """exposes an internal array through __array__ (NumPy takes it without copying)"""

    def __init__(self, a):
        self._a = a

    def __array__(self, dtype=None, copy=None):
        if dtype is not None and np.dtype(dtype) != self._a.dtype:
            return self._a.astype(dtype)
        return self._a.copy() if copy else self._a  # (NumPy 2 protocol: the object honours copy=True itself)


class _HasIface:
    def __init__(self, a):
        self._a = a
        self.__array_interface__ = a.__array_interface__


def backing(x):
    """the NumPy array through which the memory of a non-tensor input can be observed and written (None: the input owns no buffer)"""
    import array

    if isinstance(x, np.ndarray):
        return x
    if isinstance(x, (array.array, memoryview)):
        return np.asarray(x)
    if isinstance(x, (_HasArray, _HasIface)):
        return x._a
    return None


def cells_A():
    for kind in KINDS:
        for dt in DTYPES:
            for const in (None, True, False):
                for entry in ENTRIES:
                    if entry == "asarray":
                        if const is None:
                            yield ("A", kind, dt, None, None, 0, entry)
                        continue
                    if entry == "astensor":
                        yield ("A", kind, dt, const, False, 0, entry)
                        continue
                    for copy in (True, False):
                        for ndmin in (0, 1, 3):
                            yield ("A", kind, dt, const, copy, ndmin, entry)


def cells_B():
    for kind in ("t_plain", "t_graph", "t_const", "t_view", "t_int"):
        for withgrad in (False, True):
            for const in (None, True, False):
                yield ("B", kind, "copy", None, const, withgrad)
                for dt in ("float32", "float64", "int32"):
                    for copy in (True, False):
                        yield ("B", kind, "astype", dt, const, withgrad, copy)


def _like_src(k):
    import mygrad as mg

    return {"nd_f64": np.arange(6.0).reshape(2, 3), "nd_i32": np.arange(4, dtype=np.int32), "list": [1.0, 2.0],
            "t_f32": mg.tensor([[1.0, 2.0]], dtype=np.float32), "t_i": mg.tensor([1, 2, 3])}[k]


def cells_C():
    shapes = [(), 0, 3, (2, 3), (2, 0)]
    for fn in ("zeros", "ones", "empty"):
        for sh in shapes:
            for dt in ("default", "float16", "float32", "float64", "int32", "bool", "complex64"):
                yield ("C", fn, sh, dt)
    for sh in shapes:
        for fill in (2, 2.5, True):
            for dt in (None, "float32", "int64"):
                yield ("C", "full", sh, fill, dt)
    for fn in ("zeros_like", "ones_like", "empty_like", "full_like"):
        for src in ("nd_f64", "nd_i32", "list", "t_f32", "t_i"):
            for dt in (None, "float64", "int32"):
                for sh in (None, (3,), 2):
                    yield ("C", fn, src, dt, sh)
    for args in ((5,), (1, 5), (0, 1, 0.25), (5, 0, -2), (0,), (2.5,), ("t5",), ("t1", 5), (0, "t5", 2)):
        for dt in (None, "float32", "int64"):
            yield ("C", "arange", args, dt)
    for fn in ("linspace", "logspace", "geomspace"):
        for (a, b) in ((1.0, 4.0), (1, 8), ("arr", "arr"), ("tarr", "tarr"), ("t0d", 4.0), (1.0, "tarr")):
            for num in (0, 1, 5):
                for endpoint in (True, False):
                    for dt in (None, "float32"):
                        for axis in (0, -1):
                            if axis == -1 and not (isinstance(a, str) or isinstance(b, str)):
                                continue
                            yield ("C", fn, a, b, num, endpoint, dt, axis)
    for N in (0, 1, 3):
        for Mm in (None, 2):
            for k in (-1, 0, 1):
                for dt in ("default", "float32", "int64"):
                    yield ("C", "eye", N, Mm, k, dt)
        for dt in ("default", "float32", "int64"):
            yield ("C", "identity", N, dt)


def cells(tier):
    return itertools.chain(cells_A(), cells_B(), cells_C())


def is_real(dt):
    return np.issubdtype(dt, np.floating) or np.issubdtype(dt, np.integer) or np.issubdtype(dt, np.bool_)


def check_A(cell):
    import mygrad as mg

    _, kind, dt, const, copy, ndmin, entry = cell
    x = make_input(kind)
    xarr = x.data if isinstance(x, mg.Tensor) else x
    is_t = isinstance(x, mg.Tensor)
    rd = np.dtype(dt) if dt is not None else np.asarray(xarr).dtype
    state_before = (type(x.creator).__name__, None if x.grad is None else x.grad.copy(), x.data.tobytes()) if is_t else None
    kwargs = {}
    if dt is not None:
        kwargs["dtype"] = dt
    try:
        if entry == "asarray":
            r = mg.asarray(x, **kwargs)
        elif entry == "astensor":
            r = mg.astensor(x, constant=const, **kwargs)
        elif entry == "tensor":
            r = mg.tensor(x, constant=const, copy=copy, ndmin=ndmin, **kwargs)
        else:
            r = mg.Tensor(x, constant=const, copy=copy, ndmin=ndmin, **kwargs)
        raised = None
    except Exception as e:
        raised = base.exc_brief(e)
        del e
    if entry == "asarray":
        if raised:
            return ("exception", "asarray raised %s: %s" % raised)
        if not isinstance(r, np.ndarray) or isinstance(r, mg.Tensor):
            return ("type", "asarray returned %s" % type(r).__name__)
        ref = np.asarray(xarr, dtype=dt)
        if r.dtype != ref.dtype or r.shape != ref.shape or not np.array_equal(r, ref):
            return ("value", "asarray result differs from numpy.asarray")
        bk = backing(xarr)
        if bk is not None and np.shares_memory(r, bk) != np.shares_memory(ref, bk):
            return ("aliasing", "asarray shares memory=%r, numpy.asarray would %r" % (np.shares_memory(r, bk), np.shares_memory(ref, bk)))
        if bk is not None and r.strides != ref.strides:
            return ("layout", "asarray returns strides %r, numpy.asarray %r" % (r.strides, ref.strides))
        return None
    # ---- must it be rejected?
    passthrough = is_t and entry in ("astensor", "tensor") and copy is False and (const is None or x.constant is const) and (dt is None or x.dtype == np.dtype(dt)) and ndmin <= x.ndim
    must_raise = (not is_real(rd)) or (not np.issubdtype(rd, np.floating) and const is False)
    if must_raise and not passthrough:
        if raised is None:
            return ("not_rejected", "dtype %s constant=%r accepted" % (rd, const))
        return None
    if raised is not None:
        return ("exception", "%s: %s" % raised)
    if not isinstance(r, mg.Tensor):
        return ("type", "returned %s" % type(r).__name__)
    ref = np.array(xarr, dtype=dt, ndmin=ndmin or 0)
    if r.dtype != rd or r.shape != ref.shape or not np.array_equal(r.data, ref):
        return ("value", "result %s %s, numpy gives %s %s" % (r.dtype, r.shape, ref.dtype, ref.shape))
    if const is not None and r.constant is not const:
        return ("constant", "constant=%r requested, got %r" % (const, r.constant))
    if const is None and not is_t and r.constant is not (not np.issubdtype(rd, np.floating)):
        return ("constant", "default constant for dtype %s is %r" % (rd, r.constant))
    if is_t:
        after = (type(x.creator).__name__, None if x.grad is None else x.grad.copy(), x.data.tobytes())
        if after[0] != state_before[0] or (after[1] is None) != (state_before[1] is None) or after[2] != state_before[2]:
            return ("source_changed", "the source tensor's creator/grad/data changed")
    bk = backing(xarr)
    src_is_array = bk is not None
    xarr = bk if bk is not None else xarr
    if entry in ("tensor", "Tensor") and copy is True:
        if src_is_array and np.shares_memory(r.data, xarr):
            return ("aliasing", "default construction shares memory with its input")
        if src_is_array and xarr.flags.writeable and xarr.size and xarr.dtype.kind == "f":
            keep = r.data.copy()
            xarr[...] = -99.0
            if not np.array_equal(r.data, keep):
                return ("aliasing", "a later write to the input is visible in the tensor")
    else:
        if src_is_array:
            expect = np.shares_memory(np.asarray(xarr, dtype=dt), xarr)
            got = np.shares_memory(r.data, xarr)
            if got != expect:
                return ("aliasing", "copy=False/astensor shares memory=%r, numpy.asarray(x, dtype) would %r" % (got, expect))
    if is_t and entry in ("astensor", "tensor") and copy is False:
        if passthrough:
            if r is not x:
                return ("identity", "astensor/tensor(copy=False) did not return the tensor itself although dtype and constant match")
        if not passthrough and r is x:
            return ("identity", "returned the tensor itself although dtype/constant differ")
    return None


def check_B(cell):
    import mygrad as mg

    kind, meth, dt, const, withgrad = cell[1:6]
    t = make_input(kind)
    if withgrad:
        if t.constant:
            return ("skip", "constants have no gradient")
        if kind == "t_graph":
            t.backward()
        elif kind == "t_view":
            (t.hold * 2.0).sum().backward()
        else:
            (t * 2.0).sum().backward()
    before = (type(t.creator).__name__, None if t.grad is None else t.grad.copy(), t.data.tobytes(), t.base is None)
    try:
        if meth == "copy":
            r = t.copy(constant=const)
        else:
            r = t.astype(dt, copy=cell[6], constant=const)
        raised = None
    except Exception as e:
        raised = base.exc_brief(e)
        del e
    rd = t.dtype if meth == "copy" else np.dtype(dt)
    must_raise = not np.issubdtype(rd, np.floating) and const is False
    if must_raise:
        return None if raised else ("not_rejected", "integer result with constant=False accepted")
    if raised:
        return ("exception", "%s: %s" % raised)
    same_ok = meth == "astype" and cell[6] is False and rd == t.dtype and (const is None or const is t.constant)
    if r is t:
        if not same_ok:
            return ("identity", "%s returned the tensor itself" % meth)
        return None
    if r.creator is not None or r.base is not None or len(r._ops):
        return ("not_detached", "result has creator/base/consumers")
    if r.constant and r.grad is not None:
        return ("grad_on_constant", "%s(constant=%r) of a tensor holding a gradient returned a constant tensor that exposes a gradient" % (meth, const))
    if np.shares_memory(r.data, t.data) and not (meth == "astype" and cell[6] is False and rd == t.dtype):
        return ("aliasing", "result shares memory with the source")
    if r.grad is not None and t.grad is not None and r.grad.size and np.shares_memory(r.grad, t.grad):
        return ("aliasing", "the result's gradient shares memory with the source's gradient")
    if r.dtype != rd or not np.array_equal(r.data, t.data.astype(rd)):
        return ("value", "values/dtype differ")
    exp_const = const if const is not None else (t.constant if np.issubdtype(rd, np.floating) or meth == "copy" else True)
    if const is not None and r.constant is not const:
        return ("constant", "constant=%r requested, got %r" % (const, r.constant))
    after = (type(t.creator).__name__, None if t.grad is None else t.grad.copy(), t.data.tobytes(), t.base is None)
    if after[0] != before[0] or after[2] != before[2] or after[3] != before[3] or (after[1] is None) != (before[1] is None) or (after[1] is not None and not np.array_equal(after[1], before[1])):
        return ("source_changed", "the source tensor changed")
    return None


def check_C(cell):
    import mygrad as mg

    fn = cell[1]
    f_mg, f_np = getattr(mg, fn), getattr(np, fn)

    def dtkw(dt, default_key="default"):
        return {} if dt in (None, "default") else {"dtype": dt}

    def conv(a):
        return a.data if isinstance(a, mg.Tensor) else a

    if fn in ("zeros", "ones", "empty"):
        sh, dt = cell[2], cell[3]
        args_mg, kw = (sh,), dtkw(dt)
        args_np, kw_np = (sh,), ({"dtype": np.float32} if dt == "default" else {"dtype": dt})
    elif fn == "full":
        sh, fill, dt = cell[2:5]
        args_mg = args_np = (sh, fill)
        kw = kw_np = dtkw(dt)
    elif fn.endswith("_like"):
        src, dt, sh = _like_src(cell[2]), cell[3], cell[4]
        extra = (2.5,) if fn == "full_like" else ()
        args_mg, args_np = (src,) + extra, (conv(src),) + extra
        kw = dict(dtkw(dt), **({"shape": sh} if sh is not None else {}))
        kw_np = kw
    elif fn == "arange":
        targ = {"t5": 5, "t1": 1}
        args_mg = tuple(mg.tensor(targ[a]) if isinstance(a, str) else a for a in cell[2])
        args_np = tuple(targ[a] if isinstance(a, str) else a for a in cell[2])
        kw = kw_np = dtkw(cell[3])
    elif fn in ("linspace", "logspace", "geomspace"):
        a, b, num, endpoint, dt, axis = cell[2:8]
        # endpoints given as arrays / as tensors (array-likes): the NumPy call gets the tensors' arrays
        conv_ep = {"arr": lambda k: np.array([[1.0, 2.0], [4.0, 16.0]][k]), "tarr": lambda k: mg.tensor([[1.0, 2.0], [4.0, 16.0]][k]), "t0d": lambda k: mg.tensor(1.0)}
        a = conv_ep[a](0) if isinstance(a, str) else a
        b = conv_ep[b](1) if isinstance(b, str) else b
        args_mg, args_np = (a, b), (conv(a), conv(b))
        kw = kw_np = dict(dtkw(dt), num=num, endpoint=endpoint, axis=axis)
    elif fn == "eye":
        N, Mm, k, dt = cell[2:6]
        args_mg = args_np = (N,)
        kw = kw_np = dict(dtkw(dt), M=Mm, k=k)
    else:
        args_mg = args_np = (cell[2],)
        kw = kw_np = dtkw(cell[3])
    try:
        ref = f_np(*args_np, **kw_np)
        ref_err = None
    except Exception as e:
        ref_err = base.exc_brief(e)
        del e
    try:
        r = f_mg(*args_mg, **kw)
        err = None
    except Exception as e:
        err = base.exc_brief(e)
        del e
    if ref_err is not None:
        return None if err is not None else ("not_rejected", "numpy rejects these arguments (%s) but mygrad accepted" % ref_err[0])
    if not is_real(ref.dtype):
        return None if err is not None else ("not_rejected", "non-real dtype %s accepted while tracking" % ref.dtype)
    if err is not None:
        return ("exception", "%s: %s" % err)
    if not isinstance(r, mg.Tensor):
        return ("type", type(r).__name__)
    if r.dtype != ref.dtype or r.shape != ref.shape:
        return ("dtype_shape", "mygrad %s %s, numpy %s %s" % (r.dtype, r.shape, ref.dtype, ref.shape))
    if "empty" not in fn and not np.array_equal(r.data, ref, equal_nan=True):
        return ("value", "values differ from numpy")
    if r.creator is not None:
        return ("not_detached", "creation routine result has a creator")
    return None


def check(cell):
    return {"A": check_A, "B": check_B, "C": check_C}[cell[0]](cell)


def nontrivial(cell):
    return True


def outcome(cell):
    return "ok:" + cell[0] + ":" + str(cell[-1] if cell[0] == "A" else cell[1] if cell[0] == "C" else cell[2])


H = None


def plan(tier, seed):
    me = __import__("harness.C17", fromlist=["x"])
    return conf.make_plan(
        me, tier, seed, nchunks=32,
        rule="full product of (A) input kind x dtype x constant x copy x ndmin x entry point, (B) copy/astype x tensor kind x gradient x constant "
        "x dtype, (C) explicit-argument cells of the creation routines; each cell is distinct; expectations derived from numpy.asarray/numpy.array",
        bounds=dict(kinds=KINDS, dtypes=DTYPES, entries=ENTRIES),
        assumptions=["constant-flag inference for *tensor* inputs with constant=None is not pinned by the property and not compared"],
    )


def replay(case):
    return conf.replay_cell(__import__("harness.C17", fromlist=["x"]), case)


def finalize(v):
    return conf.finalize_cell(__import__("harness.C17", fromlist=["x"]), v)


def m_constant_copy_keeps_grad(v):
    """F-C17: t.copy(constant=True) of a tensor that holds a gradient returns a constant tensor exposing a copy of it."""
    f = v.get("failure") or {}
    cell = (v.get("case") or {}).get("cell") or []
    return f.get("kind") == "grad_on_constant" and len(cell) > 5 and cell[0] == "B" and cell[2] == "copy" and cell[4] is True and cell[5] is True


MATCHERS = {"constant_copy_keeps_grad": m_constant_copy_keeps_grad}
