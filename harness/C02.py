"""C02 -- each operation's backward pass is the exact VJP of its forward pass (CONF engine).

For every case of the op catalogue (specs/ops.py: every registered unary/binary ufunc x shapes x layouts x
where-masks x dtype x operand kinds, reductions x every axis form x keepdims x ddof, matmul rank classes,
einsum subscripts, norm, get/set-item index catalogue, reshaping/transposing/joining/tiling, where/clip/abs,
reciprocal trig family, sequences) and of the nnet catalogue: all tensor operands non-constant, arbitrary
incoming gradient g, f(x...).backward(g); x.grad must equal g . J with J the complex-step Jacobian of a
functional NumPy model, column by column; documented conventions at kinks are tabulated."""
import numpy as np

from mc import base, conf
from specs import nnet_calls, ops

PROPERTY = "C02"
LEVEL = "exploration"
H_STEP = 1e-20


def cells(tier):
    for i, case in enumerate(ops.all_cases(tier)):
        yield ("op", i, case["name"])
    for name in nnet_calls.NAMES:
        yield ("nnet", name, "float64")


_CASES = {}


def get_case(tier_key, i):
    if tier_key not in _CASES:
        _CASES[tier_key] = list(ops.all_cases(tier_key))
    return _CASES[tier_key][i]


def cs_expected(shadow, arrays, which, g):
    """g . d shadow / d arrays[which], by complex step, one column per element"""
    x = arrays[which]
    out = np.zeros(x.shape)
    for k in np.ndindex(*x.shape):
        pert = [np.array(a, dtype=np.complex128) if j == which else a for j, a in enumerate(arrays)]
        pert[which][k] += 1j * H_STEP
        with np.errstate(all="ignore"):
            f = np.asarray(shadow(*pert))
        out[k] = float(np.sum(g * np.imag(f)) / H_STEP)
    return out


def compare(g, e, rtol=2e-9, rel=False):
    g = np.asarray(g, dtype=np.float64)
    if g.shape != e.shape:
        return False
    if rel:  # purely relative (cases whose gradients are tiny but not zero)
        return bool(np.all(np.abs(g - e) <= 1e-7 * np.abs(e)))
    return bool(np.all(np.abs(g - e) <= rtol * np.maximum(1.0, np.abs(e))))


def check_op(case):
    import mygrad as mg

    arrays = [np.array(a, copy=True, order="K") if not a.flags.c_contiguous else a.copy() for a in case["operands"]]
    arrays = [a if a.flags.c_contiguous or a.ndim < 2 else a for a in arrays]
    # rebuild the layouts of the catalogue (copy(order='K') keeps F order; strided ones are rebuilt)
    arrays = []
    for a in case["operands"]:
        if a.ndim and not a.flags.c_contiguous and not a.flags.f_contiguous:
            big = np.zeros(tuple(2 * s for s in a.shape))
            sl = tuple(slice(None, None, 2) for _ in a.shape)
            big[sl] = a
            arrays.append(big[sl])
        else:
            arrays.append(np.array(a, copy=True, order="K"))
    kinds = case.get("kinds") or ("t",) * len(arrays)
    args = []
    for a, k in zip(arrays, kinds):
        if k == "t":
            if a.ndim and not a.flags.c_contiguous:
                holder = mg.tensor(np.array(a.base if a.base is not None else a, copy=True, order="K"))
                # a tensor whose data has the same (non-contiguous) layout
                t = mg.tensor(a, copy=False) if a.base is None else mg.tensor(a.base)[tuple(slice(None, None, 2) for _ in a.shape)]
                args.append(t)
            else:
                args.append(mg.tensor(a))
        elif k == "a":
            args.append(a)
        else:
            args.append(float(a))
    try:
        out = case["mg"](*args)
    except Exception as e:
        eb = base.exc_brief(e)
        del e
        return ("exception", "forward raised %s: %s" % eb)
    _LAST["creator"] = type(getattr(out, "creator", None)).__name__
    model_in = [np.asarray(a.data if isinstance(a, mg.Tensor) else a, dtype=np.float64) for a in args]
    with np.errstate(all="ignore"):
        ref = np.asarray(case["shadow"](*model_in))
    mask = case.get("mask")
    od = np.asarray(out.data, dtype=np.float64)
    tolf = 1e-6 if case.get("dtype") == "float32" else 1e-12
    if od.shape != ref.shape:
        return ("forward_shape", "mygrad %s, model %s" % (od.shape, ref.shape))
    sel = np.broadcast_to(mask, od.shape) if mask is not None else np.ones(od.shape, dtype=bool)
    if case["op"] != "arctan2" and not np.allclose(od[sel], np.real(ref)[sel], rtol=tolf, atol=tolf):
        return ("forward_value", "forward differs from the functional model: %s vs %s" % (od, np.real(ref)))
    if not isinstance(out, mg.Tensor) or out.constant:
        return ("constant_out", "output is constant although an operand is a non-constant tensor")
    g = np.ones(od.shape) if case.get("gones") else ops.gtable(od.shape)
    try:
        out.backward(g.copy())
    except Exception as e:
        eb = base.exc_brief(e)
        del e
        return ("exception", "backward raised %s: %s" % eb)
    gm = g if mask is None else np.where(np.broadcast_to(mask, od.shape), g, 0.0)
    rtol = 2e-4 if case.get("dtype") == "float32" else 2e-9
    for i, a in enumerate(args):
        if not isinstance(a, mg.Tensor):
            continue
        conv = (case.get("conv") or {}).get(i)
        # a convention is tabulated as the elementwise derivative; the expected gradient is g times it
        exp = conv * (np.broadcast_to(gm, conv.shape) if gm.shape == conv.shape else 1.0) if conv is not None else cs_expected(case["shadow"], model_in, i, gm)
        if case.get("zero_where_input_zero"):
            # |x|**ord (ord > 1) has derivative exactly 0 at x == 0; the complex step is not accurate at that kink
            exp = np.where(model_in[i] == 0, 0.0, exp)
        got = a.grad
        if got is None:
            if np.any(exp != 0) or a.size == 0 and False:
                return ("grad_none", "operand %d has no gradient; expected %s" % (i, exp))
            if a.size:
                return ("grad_none", "operand %d has no gradient; expected %s" % (i, exp))
            continue
        if type(got) is not np.ndarray:
            return ("grad_type", "operand %d: .grad is a %s, not an ndarray" % (i, type(got).__name__))
        if got.shape != a.shape or got.dtype != a.dtype:
            return ("grad_shape_dtype", "operand %d: grad %s %s for tensor %s %s" % (i, got.shape, got.dtype, a.shape, a.dtype))
        if not compare(got, exp, rtol, rel=bool(case.get("rel"))):
            return ("vjp", "operand %d: grad %s, g.J = %s" % (i, np.array2string(np.asarray(got), precision=8), np.array2string(exp, precision=8)))
    return None


_NN = {}
_LAST = {"creator": "?"}


def check_nnet(name, dt):
    import mygrad as mg

    if not _NN:
        _NN["cat"] = nnet_calls.catalogue()
        _NN["sh"] = nnet_calls.shadows()
    sh = _NN["sh"][name]
    if sh is None:
        return ("skip", "no differentiable-operand model")
    ins, call = _NN["cat"][name](dt)
    out = call(**ins)
    _LAST["creator"] = type(out.creator).__name__
    names = list(ins)
    model_in = [np.asarray(ins[n].data, dtype=np.float64) for n in names]
    ref = np.asarray(sh(*model_in))
    if ref.shape != out.shape or not np.allclose(out.data, np.real(ref), rtol=1e-10, atol=1e-12):
        return ("forward_value", "%s forward differs from its documented formula" % name)
    g = ops.gtable(out.shape)
    out.backward(g.copy())
    for i, n in enumerate(names):
        exp = cs_expected(sh, model_in, i, g)
        got = ins[n].grad
        if got is None:
            return ("grad_none", "%s: operand %s has no gradient" % (name, n))
        if not compare(got, exp, 2e-8):
            return ("vjp", "%s: operand %s grad %s, g.J = %s" % (name, n, np.array2string(np.asarray(got), precision=8), np.array2string(exp, precision=8)))
    return None


TIER = ["quick"]


def check(cell):
    if cell[0] == "nnet":
        return check_nnet(cell[1], cell[2])
    case = get_case(TIER[0], cell[1])
    if case["name"] != cell[2]:
        return ("harness", "case enumeration is not deterministic")
    if case["op"] in ("getitem", "setitem"):
        case = [c for c in ops.index_cases(TIER[0]) if c["name"] == cell[2]][0]  # fresh index objects
    return check_op(case)


def affinity(cell):
    return 0 if cell[0] == "nnet" and cell[1].startswith("gru") else None


def nontrivial(cell):
    return True


def outcome(cell):
    return "ok creator=" + _LAST["creator"]


def signature(cell, f):
    nm = cell[2].split("(")[0].split(" ")[0] if cell[0] == "op" else cell[1]
    return base.stable_hash((nm, f[0]))


def uncovered(total, plan):
    """differentiable Operation subclasses of the package that no case produced as a creator (informational:
    not a violation - the op may be fine - but it says what the catalogue does not reach)"""
    import importlib
    import pkgutil

    import mygrad
    from mygrad.operation_base import Operation

    for m in pkgutil.walk_packages(mygrad.__path__, "mygrad."):
        try:
            importlib.import_module(m.name)
        except Exception:
            pass
    allops = set()
    stack = [Operation]
    while stack:
        c = stack.pop()
        for sub in c.__subclasses__():
            stack.append(sub)
            if not getattr(sub, "__abstractmethods__", None):
                allops.add(sub.__name__)
    seen = {k.split("creator=")[1] for k in total.outcomes if "creator=" in k}
    plan["bounds"]["operation_classes_total"] = len(allops)
    plan["bounds"]["operation_classes_exercised"] = sorted(seen & allops)
    plan["bounds"]["operation_classes_not_exercised_directly"] = sorted(allops - seen)


def plan(tier, seed):
    TIER[0] = tier
    me = __import__("harness.C02", fromlist=["x"])
    n = sum(1 for _ in ops.all_cases(tier))
    return conf.make_plan(
        me, tier, seed, nchunks=64, post=uncovered,
        rule="every case of the op catalogue (%d cases) and of the nnet catalogue (%d calls); each case = (operation, option combination, operand "
        "shapes / layouts / kinds); gradient compared element-wise with g.J from complex-step columns of a functional NumPy model" % (n, len(nnet_calls.NAMES)),
        bounds={"op_cases": n, "nnet_calls": len(nnet_calls.NAMES)},
        assumptions=["operands <= 8 elements (<= 18 for einsum/matmul); tolerance 2e-9 relative (float32 cases 2e-4)",
                     "non-holomorphic ops (abs, cbrt, maximum, minimum, clip, arctan2, logaddexp, max/min reductions, norm) use hand-written complex-safe models",
                     "cells outside an op's differentiable domain (ties, degenerate var/std lanes, poles) are not generated except the documented conventions"],
    )


def replay(case):
    TIER[0] = "quick"
    return conf.replay_cell(__import__("harness.C02", fromlist=["x"]), case)


def finalize(v):
    me = __import__("harness.C02", fromlist=["x"])
    me.script = lambda cell, f: "# catalogue case %r\n# %s: %s\n" % (cell, f[0], f[1])
    return conf.finalize_cell(me, v)


MATCHERS = {}
