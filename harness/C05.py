"""C05 -- gradients through in-place updates and views (HIST engine + complex-step oracle).

Every history (views, non-view ops, item assignment with basic/advanced/boolean/repeated indices,
augmented assignment, out=/where= targets) up to the depth bound is closed by the terminal
L = sum_i (w_i * t_i).sum() over all live tensors; after L.backward() every live tensor's .grad is
compared with the complex-step derivative of the same statements executed by NumPy."""
import numpy as np

from mc import base, csad, explore
from mc.hist import ddmin, render, script, tuplify

PROPERTY = "C05"
LEVEL = "model_checking"

CFG_1D = dict(
    value_only=(),
    views=("all", "s1", "rev", "i0", "na", "r22", "T", "flat", "sw", "dg"),
    ops1=("pos", "mul2", "adv"),
    set_idx=("all", "s1", "i0", "advr3", "bool", "advrT"),
    iops=("iadd", "imul", "ipow2"),
    outs=(("add", None), ("multiply", 0), ("multiply", "F"), ("positive", "t0"), ("multiply", "t1")),  # 't0'/'t1': the mask is handed over as a tensor
    outs_const=True,
    max_live=6,
    set_all_tensor=True,
    no_target=("y",),
)
CFG_2D = dict(CFG_1D, set_idx=("all", "i0", "c0", "advr", "bool"), outs=(("add", None), ("multiply", 0), ("multiply", "F"), ("multiply", "B")))

WORLDS = {
    "x4": ([("x", (4,), 0, False), ("y", (3,), 5, False)], CFG_1D),
    "x23": ([("x", (2, 3), 0, False), ("y", (3,), 7, False)], CFG_2D),
    "x23F": ([("x", (2, 3), 0, False, "F"), ("y", (3,), 7, False)], CFG_2D),
}
# ops that consume one tensor several times (einsum / sequence / concatenate / matmul), then in-place updates of that tensor's family
CFG_REP = dict(CFG_1D, views=("s1", "rev"), ops1=("einxx", "einxx_r", "mseq3", "catxx", "matxx"), set_idx=("s1", "advr3"), iops=("imul",), outs=(("multiply", 0),), outs_const=False)
WORLDS["x4rep"] = ([("x", (4,), 0, False), ("y", (3,), 5, False)], CFG_REP)
WORLDS["x23rep"] = ([("x", (2, 3), 0, False), ("y", (3,), 7, False)], dict(CFG_REP, set_idx=("i0", "advr"), ops1=("einxx", "einxx_r", "mseq3", "catxx")))
BOUNDS = {"quick": [("x4", 3), ("x23", 2), ("x23F", 3), ("x4rep", 3), ("x23rep", 2)], "thorough": [("x4", 4), ("x23", 3), ("x23F", 3), ("x4rep", 4), ("x23rep", 3)]}


def grad_check(init, h, seed, impl, model_names):
    """build the terminal on the implementation, backward, compare all grads"""
    data_before = {n: impl.t[n].data.copy() for n in impl.order}
    try:
        L = csad.terminal_all_impl(impl)
        L.backward()
    except Exception as e:
        eb = base.exc_brief(e)
        del e
        return ("exception", "backward", "%s: %s" % eb)
    del L
    m0, exp = csad.expected_grads(init, h, seed)
    for n in impl.order:
        t = impl.t[n]
        if not np.array_equal(t.data, data_before[n]):
            return ("data_changed_by_backward", n, "")
        g = t.grad
        if m0.const[n]:
            if g is not None:
                return ("grad_on_constant", n, "")
            continue
        if g is None:
            return ("grad_none", n, "expected %s" % explore.fmt(exp[n]))
        if not csad.close(g, exp[n]):
            return ("grad_value", n, "impl %s expected %s" % (explore.fmt(g), explore.fmt(exp[n])))
    return None


def single_terminal_check(init, h, seed, names):
    """terminal (b): every live tensor alone as L, on a fresh replay; None-vs-array decided structurally (liberal dataflow)"""
    for Ln in names:
        r = explore.Run(init, h, seed, oracle=None)
        if r.failure is not None:
            r.close()
            return None
        impl = r.impl
        try:
            impl.t[Ln].backward()
        except Exception as e:
            eb = base.exc_brief(e)
            del e
            r.close()
            return ("exception", Ln, "%s.backward() raised %s: %s" % ((Ln,) + eb))
        m0, exp = csad.expected_grads(init, h, seed, terminal=lambda m: m.a[Ln].sum())
        for n in impl.order:
            g = impl.t[n].grad
            e = exp[n]
            if m0.const[n] or not m0.reaches(n, Ln):
                if g is not None and np.any(g != 0):
                    r.close()
                    return ("grad_on_independent", n, "L=%s does not depend on %s, yet %s.grad = %s" % (Ln, n, n, explore.fmt(g)))
                continue
            if np.any(e != 0):
                if g is None or not csad.close(g, e):
                    r.close()
                    return ("grad_value", n, "L=%s: %s.grad %s expected %s" % (Ln, n, None if g is None else explore.fmt(g), explore.fmt(e)))
            elif g is not None and np.any(g != 0):
                r.close()
                return ("grad_value", n, "L=%s: %s.grad %s expected zeros/None" % (Ln, n, explore.fmt(g)))
        r.close()
    return None


SINGLE_UPTO = {"quick": 2, "thorough": 3}
TIER = ["quick"]


def on_state(h, r, acc, seed_init):
    init, seed = seed_init
    f = grad_check(init, h, seed, r.impl, r.model.order)
    acc.inc("backward_passes")
    if f is None and len(h) <= SINGLE_UPTO[TIER[0]]:
        f = single_terminal_check(init, h, seed, list(r.model.order))
        acc.inc("single_terminal_checks", len(r.model.order))
        if f is not None:
            f = f[:2] + ("[single terminal] " + f[2],)
    if f is not None:
        acc.violation({"case": {"init": init, "history": h, "seed": seed}, "failure": (len(h), ("backward",), ) + f})
        acc.outcome("fail:" + f[0])
    else:
        acc.outcome("grads_ok")


def nontrivial(h, model):
    return any(st[0] in ("set", "iop", "out") for st in h) and len(model.order) > len(set(model.fam[n] for n in model.order))


# ------------------------------------------------------------------ non-finite incoming gradients
# "overwritten elements pass nothing to their old contents" also when the gradient arriving at an overwritten slot is infinite
# (a later op with infinite slope at the written value): a = leaf; x = a * 1.0; [t = view of x]; t[idx] = value; L = f(x).sum()
INF_TARGETS = {"x": lambda x: x, "x[...]": lambda x: x[...], "x[::-1]": lambda x: x[::-1], "x.reshape(2,2)": lambda x: x.reshape(2, 2)}
INF_IDX = {"0": lambda: 0, "0:2": lambda: slice(0, 2), "[0, 0]": lambda: [0, 0], "bool": lambda: np.array([True, False, False, True]), "...": lambda: ...}
INF_F = {"sqrt": (lambda mg, x: mg.sqrt(x), lambda v: 0.5 / np.sqrt(v)), "log": (lambda mg, x: mg.log(x), lambda v: 1.0 / v), "x ** 0.5": (lambda mg, x: x ** 0.5, lambda v: 0.5 / np.sqrt(v)),
         "reciprocal": (lambda mg, x: mg.reciprocal(x), lambda v: -1.0 / v ** 2)}
INF_FORMS = ("set_scalar", "set_tensor", "masked_out")


def inf_cells():
    for tn in INF_TARGETS:
        for ik in INF_IDX:
            for fn in INF_F:
                for form in INF_FORMS:
                    yield (tn, ik, fn, form)


def check_inf(cell):
    import mygrad as mg

    tn, ik, fn, form = cell
    base.reset_mygrad()
    A = np.array([4.0, 9.0, 16.0, 25.0])
    a = mg.tensor(A.copy())
    x = a * 1.0
    t = INF_TARGETS[tn](x)
    ref = A.copy()  # the memory after the update, as NumPy does it
    rv = INF_TARGETS[tn](ref)
    idx = INF_IDX[ik]()
    if tn == "x.reshape(2,2)" and ik == "bool":
        idx = np.array([[True, False], [False, True]])
    b = None
    try:
        if form == "set_scalar":
            t[idx] = 0.0
            rv[idx] = 0.0
        elif form == "set_tensor":
            shape = np.shape(rv[idx])
            b = mg.tensor(np.zeros(shape))
            t[idx] = b
            rv[idx] = 0.0
        elif form == "imul0":
            if ik != "...":
                return ("skip", "augmented form is exercised on the whole target")
            t *= 0.0
            rv *= 0.0
        else:
            if ik != "...":
                return ("skip", "masked form is exercised on the whole target")
            m = (np.arange(rv.size).reshape(rv.shape) % 2 == 0)
            # the selected slots are overwritten with a value that does not depend on the old contents
            mg.positive(np.zeros(rv.shape), where=m, out=t)
            np.positive(np.zeros(rv.shape), where=m, out=rv)
    except Exception as e:
        eb = base.exc_brief(e)
        del e
        return ("exception", "%s: %s" % eb)
    if not np.array_equal(x.data, ref):
        return ("skip", "forward differs (C04's business)")
    with np.errstate(all="ignore"):
        try:
            INF_F[fn][0](mg, x).sum().backward()
        except Exception as e:
            eb = base.exc_brief(e)
            del e
            return ("exception", "backward: %s: %s" % eb)
        slope = INF_F[fn][1](ref)
    written = ref != A if form != "masked_out" else None
    # old contents: overwritten slots get exactly 0, untouched slots the slope at their (unchanged) value; masked-out slots likewise
    exp = np.where(ref == A, slope, 0.0) if form != "imul0" else np.zeros(4)
    if form == "imul0":
        exp = np.zeros(4)  # d(0 * a)/da = 0 everywhere (0 * inf must not leak either)
    g = a.grad
    if g is None or g.shape != exp.shape or not np.allclose(g, exp, rtol=1e-12, atol=0, equal_nan=False):
        return ("grad_value", "old contents a: grad %s expected %s (target %s, index %s, consumer %s, form %s)" % (None if g is None else explore.fmt(g), explore.fmt(exp), tn, ik, fn, form))
    return None


def run_inf_task(task):
    acc = base.Acc()
    for cell in inf_cells():
        r = check_inf(cell)
        acc.inc("evaluations")
        if r is not None and r[0] == "skip":
            acc.outcome("skip: " + r[1])
            continue
        acc.inc("traces")
        acc.inc("transitions")
        acc.states.add(hash(("inf", cell)))
        acc.nontrivial.add(base.stable_hash(("inf", cell)))
        if r is not None:
            acc.violation({"case": {"inf": list(cell), "init": [], "history": []}, "failure": (2, ("backward",), r[0], "a", r[1])})
            acc.outcome("fail:" + r[0])
        else:
            acc.outcome("ok:non-finite gradient at an overwritten slot")
    return acc


def run_task(task):
    if task[0] == "inf":
        return run_inf_task(task)
    wname, prefix, depth, seed = task
    init, cfg = WORLDS[wname]
    acc = base.Acc()
    # (einsum / matmul reduce in another order than the model's `(a * a).sum()`: forward values of those worlds are compared to 1e-12,
    # not bitwise - thorough-tier false alarm at depth 4, where the operands are no longer short dyadic numbers)
    explore.dfs(init, cfg, prefix, depth, acc, seed, nontrivial=nontrivial, oracle=explore.c04_check_approx if wname.endswith("rep") else explore.c04_check,
                on_state=lambda h, r, a: on_state(h, r, a, (init, seed)))
    for v in acc.violations:
        v["case"]["world"] = wname
    return acc


def plan(tier, seed):
    TIER[0] = tier
    tasks = []
    for wname, depth in BOUNDS[tier]:
        init, cfg = WORLDS[wname]
        k = 2 if depth >= 3 else 1
        for p in explore.prefixes(init, cfg, k, seed):
            tasks.append((wname, p, depth, seed))
    tasks.append(("inf",))
    return dict(
        tasks=tasks,
        run=run_task,
        rule="all statement sequences up to the depth bound (every prefix is closed by the weighted-sum terminal and "
        "backward(), and by every live tensor alone as terminal); worlds incl. an F-ordered root and ops fed one tensor several times (einsum / concatenate / matmul / sequences); non-trivial = history with >=1 in-place write while >=2 live tensors share memory",
        bounds={w: d for w, d in BOUNDS[tier]},
        assumptions=[
            "gradient reference = complex-step (h=1e-20) re-execution of the statements on NumPy complex128 shadows; tolerance 1e-9 relative",
            "fixed dyadic value table rotated by VERIF_SEED; .shape assignment excluded (C04 only)",
        ],
    )


def _fails(init, h, seed):
    rep = any(st[0] == "op1" and st[3] in ("einxx", "einxx_r", "matxx", "mseq3", "catxx") for st in h)
    r = explore.Run(init, h, seed, oracle=explore.c04_check_approx if rep else explore.c04_check)
    if r.failure is not None:
        f = r.failure
        r.close()
        return f
    f = grad_check(init, h, seed, r.impl, r.model.order)
    names = list(r.model.order)
    r.close()
    if f is None and len(h) <= SINGLE_UPTO["thorough"]:
        f = single_terminal_check(init, h, seed, names)
    return None if f is None else (len(h), ("backward",)) + f


def replay(case):
    if case.get("inf"):
        r = check_inf(tuple(case["inf"]))
        return [dict(failure=(2, ("backward",), r[0], "a", r[1]))] if r is not None and r[0] != "skip" else []
    init = [(i[0], tuple(i[1])) + tuple(i[2:]) for i in case["init"]]
    h = [tuplify(s) for s in case["history"]]
    f = _fails(init, h, case.get("seed", 0))
    return [dict(failure=f)] if f is not None else []


def finalize(v):
    import harness.C04 as C04

    case = v["case"]
    if case.get("inf"):
        r = replay(case)
        if not r:
            return None
        f = r[0]["failure"]
        c = case["inf"]
        return dict(case=case, failure=dict(kind=f[2], detail=f[4]), min_history=[],
                    script="import mygrad as mg, numpy as np\na = mg.tensor([4., 9., 16., 25.]); x = a * 1.0; t = %s\n# update form %s at index %s, then mg.%s(x).sum().backward()\n# %s: %s\n" % (c[0].replace("x", "x", 1), c[3], c[1], c[2], f[2], f[4]),
                    signature=base.stable_hash(("inf", c[0], c[3], f[2])))
    init = [(i[0], tuple(i[1])) + tuple(i[2:]) for i in case["init"]]
    seed = case.get("seed", 0)
    h = [tuplify(s) for s in case["history"]]
    f0 = _fails(init, h, seed)
    if f0 is None:
        return None
    kind = f0[2]
    hm = ddmin(h, lambda c: (lambda f: f is not None and f[2] == kind)(_fails(init, c, seed)), init)
    f = _fails(init, hm, seed)
    st = "L.backward()" if f[1][0] == "backward" else render(f[1])
    tail = "L = sum((w_i * t_i).sum() for all live tensors); L.backward()\n# %s at step %d `%s`: %s %s\n" % (f[2], f[0], st, f[3], f[4])
    return dict(
        case=dict(init=init, history=hm, seed=seed, world=case.get("world")),
        failure=dict(step=f[0], statement=st, kind=f[2], where=f[3], detail=f[4]),
        script=script(init, hm, seed, "# " + tail),
        signature=C04.signature(hm, f),
        min_history=hm,
    )


MATCHERS = {}

from harness.C04 import presig  # noqa
