"""C07 -- backward() releases the whole graph; gradients never go stale (HIST engine).

Histories over the C05 alphabet (views, non-view ops, in-place updates) extended with backward() on
any live tensor or on the weighted-sum terminal, and null_grad.  Every statement is a legal user
action, so an exception is a violation.  Oracles (collector disabled):
 (1) after backward: every tensor/op/placeholder of the walked graph that the program does not hold
     is dead; every held tensor of the graph has no creator and no consumers; dropping the world
     leaves no cyclic garbage;
 (2) a gradient persists across statements that do not use its tensor, and reads None right after
     the tensor enters a non-view op / in-place update (also for its connected views);
 (3) re-running the same forward/backward three times gives bit-identical leaf gradients."""
import gc
import weakref

import numpy as np

from mc import base, csad, explore
from mc.hist import Impl, Model, ddmin, render, script, tuplify

PROPERTY = "C07"
LEVEL = "model_checking"

CFG = dict(
    value_only=(),
    views=("s1", "rev", "flat", "T"),
    ops1=("mul2",),
    ops2=("mul",),
    set_idx=("s1",),
    iops=("iadd",),
    outs=(("multiply", 0),),
    max_live=5,
    values="narrow",
    setshape={(3,): ((3, 1),), (2, 2): ((4,),), (4,): ((2, 2),), (2,): ((1, 2),)},
)
WORLDS = {
    "x3": [("x", (3,), 0, False), ("y", (2,), 5, False)],
    "x22": [("x", (2, 2), 0, False), ("y", (2,), 7, False)],
}
# a non-C-contiguous leaf with a reshape view of its transpose already taken, and matmul among the consumers (an op that hands back a
# freshly allocated, C-ordered gradient); the two prefix statements are part of every history of that world
WORLDS["x22F"] = [("x", (2, 2), 0, False, "F"), ("y", (2,), 7, False)]
PREFIX = {"x22F": [("view", "v", "x", "T"), ("view", "vv", "v", "flat")]}
CFG_F = dict(CFG, views=("T",), ops1=("mul2",), ops2=("matmul", "mul"), set_idx=(), iops=("iadd",), outs=(), setshape={}, max_live=6, fails=True)
BOUNDS = {"quick": [("x3", 4), ("x22", 3), ("x22F", 3)], "thorough": [("x3", 5), ("x22", 4), ("x22F", 4)]}


def cfg_of(wname):
    return CFG_F if wname == "x22F" else CFG


def enabled(m, cfg, out, n_back):
    sts = explore.enabled(m, cfg, out)
    if n_back < 2:
        sts.append(("bwall",))
        for t in m.order:
            sts.append(("backward", t))
    for t in m.order[:2]:
        sts.append(("null_grad", t))
    return sts


def graph_refs(t):
    """weakrefs to every tensor and op reachable from t through creator.variables"""
    refs = []
    stack = [t]
    seen = set()
    while stack:
        u = stack.pop()
        if id(u) in seen:
            continue
        seen.add(id(u))
        refs.append(weakref.ref(u))
        c = u._creator
        if c is not None:
            if id(c) not in seen:
                seen.add(id(c))
                refs.append(weakref.ref(c))
            stack.extend(c.variables)
    return refs, seen


def strongly_reachable(roots, target):
    """is `target` reachable from the program's tensors through strong references?  Follows instance dicts, containers,
    bound methods and closure cells (e.g. the replay functions an UnView op keeps), but not function globals."""
    import types

    seen = set()
    stack = list(roots)
    tid = id(target)
    n = 0
    while stack and n < 200000:
        o = stack.pop()
        if id(o) in seen:
            continue
        seen.add(id(o))
        n += 1
        if id(o) == tid:
            del stack
            return True
        if isinstance(o, (str, bytes, int, float, bool, type(None), np.ndarray, weakref.ref, type)):
            continue
        if isinstance(o, dict):
            stack.extend(o.values())
        elif isinstance(o, (list, tuple, set, frozenset)):
            stack.extend(o)
        elif isinstance(o, types.MethodType):
            stack.append(o.__self__)
            stack.append(o.__func__)
        elif isinstance(o, types.FunctionType):
            if o.__closure__:
                stack.extend(c.cell_contents for c in o.__closure__ if c is not None)
            w = getattr(o, "__wrapped__", None)
            if w is not None:
                stack.append(w)
            if o.__defaults__:
                stack.extend(o.__defaults__)
        else:
            d = getattr(o, "__dict__", None)
            if isinstance(d, dict):
                stack.extend(d.values())
            for slot in getattr(type(o), "__slots__", ()):
                try:
                    stack.append(getattr(o, slot))
                except AttributeError:
                    pass
    del stack
    return False


def snap(impl):
    out = {}
    for n in impl.order:
        g = impl.t[n].grad
        out[n] = None if g is None else g.copy()
    return out


def same(a, b):
    if a is None or b is None:
        return a is None and b is None
    return a.shape == b.shape and np.array_equal(a, b)


class Exec:
    def __init__(self, init, h, seed):
        base.reset_mygrad()
        self.impl = impl = Impl(init, seed)
        self.model = model = Model(init, seed=seed)
        self.failure = None
        self.loud = False
        self.n_back = 0
        G = snap(impl)
        for i, st in enumerate(h):
            st = tuple(st)
            kind = st[0]
            # which slots does this statement use / which are their connected views (impl-observed)
            held = {id(impl.t[n]) for n in impl.order}
            leaf = {n for n in impl.order if impl.t[n]._creator is None}
            views_of = {}
            for n in impl.order:
                b = impl.t[n].base
                if b is not None:
                    for k in impl.order:
                        if impl.t[k] is b:
                            views_of.setdefault(k, []).append(n)
            refs = None
            D = {n: impl.t[n].data.copy() for n in impl.order}
            try:
                if kind == "bwall":
                    L = csad.terminal_all_impl(impl)
                    refs, seen = graph_refs(L)
                    inG = [n for n in impl.order if id(impl.t[n]) in seen]
                    L.backward()
                    del L
                elif kind == "backward":
                    refs, seen = graph_refs(impl.t[st[1]])
                    inG = [n for n in impl.order if id(impl.t[n]) in seen]
                    impl.apply(st)
                else:
                    model.apply(st)
                    impl.apply(st)
            except Exception as e:
                eb = base.exc_brief(e)
                del e
                if kind in ("bwall", "backward") and eb[0] == "InvalidBackprop":
                    self.loud = True  # legitimate loud failure (C09): the branch ends
                    return
                self.failure = (i, st, "exception", "", "%s: %s" % eb)
                return
            if kind in ("bwall", "backward"):
                self.n_back += 1
                # (1) release
                reach = set()
                stack = [impl.t[n] for n in impl.order]
                while stack:
                    u = stack.pop()
                    if id(u) in reach:
                        continue
                    reach.add(id(u))
                    if u._creator is not None:
                        reach.add(id(u._creator))
                        stack.extend(u._creator.variables)
                    if u._base is not None:
                        stack.append(u._base)
                del stack
                for r in refs:
                    o = r()
                    if o is None:
                        continue
                    if id(o) in held:
                        if o._creator is not None or len(o._ops) != 0:  # held => a Tensor
                            name = [n for n in impl.order if impl.t[n] is o][0]
                            self.failure = (i, st, "not_cleared", name, "creator=%s consumers=%d after backward" % (type(o._creator).__name__, len(o._ops)))
                            del o
                            return
                    elif id(o) not in reach and not strongly_reachable([impl.t[n] for n in impl.order], o):
                        self.failure = (i, st, "leak", type(o).__name__, "object of the graph survives backward() though the program holds no reference to it")
                        del o
                        return
                    del o
                del refs
                touched = set(model.fam[n] for n in inG)
                for n in impl.order:
                    if model.fam[n] not in touched and not same(impl.t[n].grad, G[n]):
                        self.failure = (i, st, "grad_changed", n, "gradient of a tensor outside the graph changed")
                        return
                    if model.fam[n] in touched and n not in inG:
                        # a view that took no part in this pass, of memory whose gradient was just recomputed: the
                        # value of an earlier pass must be gone - it reads None or the matching view of the new gradient
                        g = impl.t[n].grad
                        own = model.owner(n)
                        go = impl.t[own].grad if own in impl.t else None
                        if own not in impl.t or impl.t[n].base is not impl.t[own]:
                            continue  # MyGrad no longer treats it as a view of the owner (its base reference was dropped)
                        if g is not None and (go is None or (g.size and not np.shares_memory(g, go))):
                            self.failure = (i, st, "stale_grad", n, "after this backward pass %s.grad is neither None nor a view of %s.grad: a value of an earlier pass" % (n, own))
                            return
                G = snap(impl)
                continue
            if kind == "null_grad":
                if impl.t[st[1]].grad is not None:
                    self.failure = (i, st, "stale_grad", st[1], "grad not None after null_grad")
                    return
                for n in impl.order:
                    if model.fam[n] != model.fam[st[1]] and not same(impl.t[n].grad, G[n]):
                        self.failure = (i, st, "grad_changed", n, "null_grad of another tensor changed this gradient")
                        return
                G = snap(impl)
                continue
            if kind == "view" and model.fam[st[1]] != st[1]:  # NumPy says it really is a view
                for n in impl.order:
                    if n != st[1] and not same(impl.t[n].grad, G[n]):
                        self.failure = (i, st, "grad_changed", n, "view creation changed a gradient: before %s after %s" % (G[n], impl.t[n].grad))
                        return
                G = snap(impl)
                continue
            if kind == "setshape":
                if impl.t[st[1]].shape != tuple(st[2]):
                    self.failure = (i, st, "shape", st[1], "shape assignment had no effect")
                    return
                G = snap(impl)
                continue
            # non-view op or in-place update
            used = [u for u in __import__("mc.hist", fromlist=["uses"]).uses(st)]
            must_none = set(u for u in used if u in leaf)
            for u in used:
                if u in leaf:
                    must_none |= set(views_of.get(u, ()))
            if kind in ("op1", "op2"):
                must_none.add(st[1])
            for n in must_none:
                if n in impl.t and impl.t[n].grad is not None:
                    self.failure = (i, st, "stale_grad", n, "gradient still readable after its tensor%s entered %s" % ("" if n in used else "'s base", "an in-place update" if kind in ("set", "iop", "out") else "a non-view operation"))
                    return
            fams = set(model.fam[u] for u in used)
            for n in impl.order:
                if n in G and model.fam[n] not in fams and not same(impl.t[n].grad, G[n]):
                    self.failure = (i, st, "grad_changed", n, "gradient of an uninvolved tensor changed")
                    return
            if kind in ("set", "iop", "out"):
                # a tensor that owns its memory and that this update demonstrably did not reach (MyGrad gave the target memory of its
                # own - a view left over from an earlier graph - and the tensor's data is untouched) was not "used": its gradient persists
                tgt = impl.t[st[1]]
                for n in impl.order:
                    t = impl.t[n]
                    if n == st[1] or n not in G or n not in D or G[n] is None or t.base is not None or t._creator is not None or n in used:
                        continue
                    if t.data.size and not np.shares_memory(t.data, tgt.data) and np.array_equal(t.data, D[n]) and not same(t.grad, G[n]):
                        self.failure = (i, st, "grad_changed", n, "the update did not touch %s (no shared memory, data unchanged), yet its gradient changed from %s to %s" % (n, G[n], t.grad))
                        return
            G = snap(impl)
            f = None
            if self.n_back == 0:
                f = explore.c04_check(impl, model, {n: id(impl.t[n]) for n in impl.order}, check_base=False)
            if f is not None:
                self.failure = (i, st) + f
                return

    def close(self):
        self.impl.t.clear()
        self.impl = self.model = None


def run_one(init, h, seed):
    ex = Exec(init, h, seed)
    f = ex.failure
    model, nb = ex.model, ex.n_back
    if ex.loud:
        nb = -1
    ex.close()
    del ex
    n = gc.collect()
    if f is None and n:
        f = (len(h), ("end",), "cyclic_garbage", "", "%d unreachable objects found by the collector after dropping the world" % n)
    return f, model, nb


def iteration_check(init, h, seed):
    """(3): same forward/backward three times in one world -> identical leaf grads each time"""
    base.reset_mygrad()
    impl = Impl(init, seed)
    leaves = list(impl.order)
    grads = []
    for it in range(3):
        for st in h:
            impl.apply(tuple(st))
        L = csad.terminal_all_impl(impl)
        L.backward()
        del L
        grads.append({n: impl.t[n].grad.copy() for n in leaves})
        for n in list(impl.order):
            if n not in leaves:
                impl._del(n)
    impl.t.clear()
    for it in (1, 2):
        for n in leaves:
            if not same(grads[0][n], grads[it][n]):
                return (len(h), ("iterate",), "iteration_drift", n, "iteration 0: %s iteration %d: %s" % (explore.fmt(grads[0][n]), it, explore.fmt(grads[it][n])))
    return None


def run_task(task):
    wname, prefix, depth, seed = task
    init = WORLDS[wname]
    acc = base.Acc()
    pre = list(PREFIX.get(wname, ()))
    stack = [list(prefix)]  # (task prefixes already start with the world's PREFIX statements)
    depth = depth + len(pre)
    while stack:
        h = stack.pop()
        f, model, nb = run_one(init, h, seed)
        acc.inc("evaluations")
        acc.inc("transitions", 1 if h else 0)
        if f is None and h and not any(st[0] in ("set", "iop", "out", "bwall", "backward", "null_grad", "setshape") for st in h):
            f = iteration_check(init, h, seed)
            acc.inc("iteration_checks")
        if f is not None:
            acc.violation({"case": {"init": init, "history": h, "seed": seed, "world": wname}, "failure": f})
            acc.outcome("fail:" + f[2])
            continue
        if nb < 0:
            acc.outcome("branch ended: InvalidBackprop")
            continue
        acc.outcome("ok")
        acc.states.add(hash((model.digest(), tuple(i for i, s in enumerate(h) if s[0] in ("bwall", "backward", "null_grad")))))
        if nb and any(st[0] in ("set", "iop") for st in h):
            acc.nontrivial.add(base.stable_hash(h))
        acc.inc("traces")
        if len(acc.samples) < 2 and len(h) == depth and nb:
            acc.samples.append("; ".join("L=sum_i (w_i*t_i).sum(); L.backward(); del L" if s[0] == "bwall" else render(s) for s in h))
        if len(h) < depth:
            for st in reversed(enabled(model, cfg_of(wname), "t%d" % len(h), nb)):
                stack.append(h + [st])
    return acc


def plan(tier, seed):
    tasks = []
    for wname, depth in BOUNDS[tier]:
        init = WORLDS[wname]
        pre = [list(PREFIX.get(wname, ()))]
        for _ in range(2):
            nxt = []
            for h in pre:
                m = Model(init, seed=seed)
                nb = 0
                for st in h:
                    if st[0] in ("bwall", "backward"):
                        nb += 1
                    elif st[0] != "null_grad":
                        m.apply(st)
                nxt += [h + [st] for st in enabled(m, cfg_of(wname), "t%d" % len(h), nb)]
            tasks += [(wname, h, len(h) - len(PREFIX.get(wname, ())), seed) for h in pre]
            pre = nxt
        tasks += [(wname, p, depth, seed) for p in pre]
    return dict(
        tasks=tasks,
        run=run_task,
        rule="all statement sequences up to the depth bound over views / non-view ops / in-place updates / backward on any "
        "tensor or on the weighted terminal (at most 2 per history) / null_grad; non-trivial = history with a backward and an in-place update",
        bounds={w: d for w, d in BOUNDS[tier]},
        assumptions=[
            "cyclic GC disabled for the whole run; liveness observed through weakrefs taken by an iterative walk of the real graph",
            "'no recorded consumers' is read from the private consumer set Tensor._ops",
            "'its views' = tensors whose .base is the tensor, as reported by the implementation before the statement",
        ],
    )


def _fails(init, h, seed):
    f, _, _ = run_one(init, h, seed)
    if f is None and h and not any(st[0] in ("set", "iop", "out", "bwall", "backward", "null_grad", "setshape") for st in h):
        f = iteration_check(init, h, seed)
    return f


def replay(case):
    init = [(i[0], tuple(i[1])) + tuple(i[2:]) for i in case["init"]]
    h = [tuplify(s) for s in case["history"]]
    f = _fails(init, h, case.get("seed", 0))
    return [dict(failure=f)] if f is not None else []


def finalize(v):
    import harness.C04 as C04

    case = v["case"]
    init = [(i[0], tuple(i[1])) + tuple(i[2:]) for i in case["init"]]
    seed = case.get("seed", 0)
    h = [tuplify(s) for s in case["history"]]
    f0 = _fails(init, h, seed)
    if f0 is None:
        return None
    kind = f0[2]
    hm = ddmin(h, lambda c: (lambda f: f is not None and f[2] == kind)(_fails(init, c, seed)), init)
    f = _fails(init, hm, seed)
    code = script(init, [s for s in hm if s[0] != "bwall"], seed, "")
    lines = []
    for s in hm:
        lines.append("L = sum((w_i * t_i).sum() for live tensors); L.backward(); del L" if s[0] == "bwall" else render(s))
    tail = "# history: " + "; ".join(lines) + "\n# %s at step %d: %s %s\n" % (f[2], f[0], f[3], f[4])
    return dict(
        case=dict(init=init, history=hm, seed=seed, world=case.get("world")),
        failure=dict(step=f[0], kind=f[2], where=f[3], detail=f[4]),
        script=code + tail,
        signature=C04.signature(hm, f),
        min_history=hm,
    )


def m_inplace_on_view_of_base_with_grad(v):
    """F-C07: base holds a gradient (after backward); in-place update through a *view* of it raises the
    internal AssertionError 'A placeholder copy can not be created for a tensor with a gradient'."""
    f = v.get("failure") or {}
    return f.get("kind") == "exception" and "placeholder copy can not be created" in f.get("detail", "")


def m_cycle_through_stale_view_edge(v):
    """F-C07c (root cause shared with F-C09): a view op recorded before its base's consumer set was
    emptied by a clear event is missed by the in-place reroute and keeps pointing at the public base;
    writing a value that depends on that view into the base closes a reference cycle
    base -> in-place op -> view -> view op -> base."""
    f = v.get("failure") or {}
    if f.get("kind") != "cyclic_garbage":
        return False
    case = v.get("case") or {}
    init = [(i[0], tuple(i[1])) + tuple(i[2:]) for i in case["init"]]
    ex = Exec(init, [tuple(tuplify(s)) for s in case["history"]], case.get("seed", 0))
    if ex.failure is not None or ex.loud:
        ex.close()
        return False
    stale = explore.has_stale_edge([ex.impl.t[n] for n in ex.impl.order])
    ex.close()
    del ex
    gc.collect()
    return stale


def m_backward_through_stale_edge_raises(v):
    """F-C07d (root cause shared with F-C09): an op recorded before a clear event emptied its input's consumer set is
    missed by the reroute of a later in-place update / shape assignment and keeps pointing at the public tensor, whose
    shape has meanwhile changed; backward() through that op raises a NumPy shape error instead of InvalidBackprop."""
    f = v.get("failure") or {}
    case = v.get("case") or {}
    h = [tuple(tuplify(s)) for s in case.get("history", [])]
    if f.get("kind") != "exception" or not h or h[-1][0] not in ("backward", "bwall"):
        return False
    if not any(s[0] in ("setshape",) for s in h[:-1]):
        return False
    init = [(i[0], tuple(i[1])) + tuple(i[2:]) for i in case["init"]]
    ex = Exec(init, h[:-1], case.get("seed", 0))
    if ex.failure is not None or ex.loud:
        ex.close()
        return False
    stale = explore.has_stale_edge([ex.impl.t[n] for n in ex.impl.order])
    ex.close()
    del ex
    gc.collect()
    return stale


MATCHERS = {"backward_through_stale_edge_raises": m_backward_through_stale_edge_raises,
            "inplace_on_view_of_base_with_grad": m_inplace_on_view_of_base_with_grad,
            "cycle_through_stale_view_edge": m_cycle_through_stale_view_edge}
from harness.C04 import presig  # noqa
