"""C10 -- constant semantics: constants never receive or transmit gradients (PROG engine).

All programs up to n statements over function-form ops that accept `constant=` (add, multiply, negative,
sum, reshape) plus basic-index views and one in-place statement form, x every assignment of leaf kind
{float variable, float constant tensor, int tensor, bool tensor, ndarray, Python scalar} to the two leaves
x constant in {None, True, False} on every statement.  Oracles: the documented rule for `.constant`;
constants never expose a .grad; gradients of all other tensors equal those of the same program with every
constant tensor replaced by a plain ndarray."""
import itertools

import numpy as np

from mc import base

PROPERTY = "C10"
LEVEL = "model_checking"
BOUNDS = {"quick": 2, "thorough": 3}

LEAF_KINDS = ["fvar", "fconst", "itens", "btens", "nd", "sc"]
CONSTS = [None, True, False]


def make_leaf(kind, which):
    import mygrad as mg

    f = np.array([0.5, -1.25]) if which == 0 else np.array([1.75, 0.75])
    i = np.array([2, -3]) if which == 0 else np.array([1, 4])
    return {
        "fvar": lambda: mg.tensor(f),
        "fconst": lambda: mg.tensor(f, constant=True),
        "itens": lambda: mg.tensor(i),
        "btens": lambda: mg.tensor(i > 0),
        "nd": lambda: f.copy(),
        "sc": lambda: 1.5 if which == 0 else -2.0,
    }[kind]()


# statement forms: (name, arity, takes constant kw)
FORMS = {
    "add": (2, True, lambda mg, x, y, c: mg.add(x, y, constant=c), lambda x, y: np.add(x, y)),
    "mul": (2, True, lambda mg, x, y, c: mg.multiply(x, y, constant=c), lambda x, y: np.multiply(x, y)),
    "neg": (1, True, lambda mg, x, c: mg.negative(x, constant=c), lambda x: np.negative(x)),
    "sum0": (1, True, lambda mg, x, c: mg.sum(x, axis=0, keepdims=True, constant=c), lambda x: np.sum(x, axis=0, keepdims=True)),
    "reshape": (1, True, lambda mg, x, c: mg.reshape(x, (-1, 1), constant=c), lambda x: np.reshape(x, (-1, 1))),
    "rev": (1, False, lambda mg, x, c: x[::-1], lambda x: x[::-1]),
    "addout": (3, True, None, None),  # mg.add(x, y, out=<tensor target>, constant=c): the target keeps its own flag
    "iadd": (2, False, None, None),  # x += y on a tensor target
    "set0": (2, False, None, None),  # x[0] = y on a tensor target
}


def programs(depth, n_vals=2):
    """statements: (form, operand indices, constant kw); operands index into values (leaves 0,1 then results)"""
    def rec(k, nv):
        if k == 0:
            yield ()
            return
        for form, (ar, takes_c, _, _) in FORMS.items():
            for ops in itertools.product(range(nv), repeat=ar):
                for c in (CONSTS if takes_c else [None]):
                    st = (form, ops, c)
                    creates = form not in ("iadd", "set0", "addout")
                    for rest in rec(k - 1, nv + (1 if creates else 0)):
                        yield (st,) + rest
    for d in range(1, depth + 1):
        yield from rec(d, n_vals)


def is_tensor(v):
    import mygrad as mg

    return isinstance(v, mg.Tensor)


def data_of(v):
    return v.data if is_tensor(v) else np.asarray(v)


class Skip(Exception):
    pass


def execute(prog, kinds, replace_constants):
    """-> (values, records) ; records: per statement dict(expect_const, raised, must_raise).
    With replace_constants every constant tensor is swapped for a copy of its ndarray as soon as it exists."""
    import mygrad as mg

    vals = [make_leaf(kinds[0], 0), make_leaf(kinds[1], 1)]
    if replace_constants:
        vals = [np.array(v.data) if is_tensor(v) and v.constant else v for v in vals]
    recs = []
    replaced_views = [v for v in vals if replace_constants and isinstance(v, np.ndarray)]
    for form, ops, c in prog:
        args = [vals[i] for i in ops]
        if form in ("addout", "iadd", "set0") and replace_constants:
            tgt_ = args[2] if form == "addout" else args[0]
            if any(np.shares_memory(data_of(tgt_), rv) for rv in replaced_views):
                raise Skip("in-place statement on memory seen through an array-replaced constant view")
        flags_before = [(v.constant if is_tensor(v) else None) for v in vals]
        if form == "addout":
            xa, ya, tgt = args
            if not is_tensor(tgt):
                raise Skip("out= target must be a tensor")
            flag = tgt.constant
            ref_t = np.array(data_of(tgt))
            try:
                np.add(data_of(xa), data_of(ya), out=ref_t)
            except Exception as e:
                del e
                raise Skip("numpy rejects this out= call")
            must = (not np.issubdtype(ref_t.dtype, np.floating)) and c is False
            try:
                mg.add(xa, ya, out=tgt, constant=c)
            except Exception as e:
                eb = base.exc_brief(e)
                del e
                recs.append(dict(kind="inplace", raised=eb, flag=flag, tgt=ops[2], must_raise=must))
                return vals, recs, "raised"
            recs.append(dict(kind="inplace", raised=None, flag=flag, tgt=ops[2], must_raise=must, flags_before=flags_before, flags_after=[(v.constant if is_tensor(v) else None) for v in vals]))
            continue
        if form in ("iadd", "set0"):
            tgt, val = args
            if not is_tensor(tgt):
                # (in the array-replaced variant a constant-tensor target has become a caller array, which the
                # memory guard may rightly have locked: not a comparable program)
                raise Skip("in-place target must be a tensor")
            flag = tgt.constant if is_tensor(tgt) else None
            # legality is decided by NumPy on copies
            ref_t = np.array(data_of(tgt))
            try:
                if form == "iadd":
                    ref_t += data_of(val)
                else:
                    ref_t[0] = data_of(val)
            except Exception as e:
                del e
                raise Skip("numpy rejects this in-place statement")
            try:
                if not is_tensor(tgt):
                    if form == "iadd":
                        tgt += data_of(val)
                    else:
                        tgt[0] = data_of(val)
                elif form == "iadd":
                    tgt += val
                else:
                    tgt[0] = val
            except Exception as e:
                eb = base.exc_brief(e)
                del e
                recs.append(dict(kind="inplace", raised=eb, flag=flag, tgt=ops[0]))
                return vals, recs, "raised"
            recs.append(dict(kind="inplace", raised=None, flag=flag, tgt=ops[0], flags_before=flags_before, flags_after=[(v.constant if is_tensor(v) else None) for v in vals]))
            continue
        ar, takes_c, f_mg, f_np = FORMS[form]
        if not any(is_tensor(a) for a in args) and form in ("rev",):
            raise Skip("view of a non-tensor")
        if form == "reshape" and data_of(args[0]).ndim != 1:
            raise Skip("reshape form is for 1-D")
        if form in ("rev", "sum0") and data_of(args[0]).ndim == 0:
            raise Skip("0-d")
        try:
            ref = f_np(*[data_of(a) for a in args])
        except Exception as e:
            del e
            raise Skip("numpy rejects this statement")
        isfloat = np.issubdtype(np.asarray(ref).dtype, np.floating)
        all_const = all((a.constant if is_tensor(a) else True) for a in args)
        if form == "rev":
            expect = args[0].constant
        elif not isfloat:
            expect = True
        elif c is not None:
            expect = c
        else:
            expect = all_const
        must_raise = (not isfloat) and c is False
        try:
            r = f_mg(mg, *args, c)
            raised = None
        except Exception as e:
            raised = base.exc_brief(e)
            del e
        recs.append(dict(kind="op", raised=raised, must_raise=must_raise, expect=expect, ref=ref))
        if raised is not None:
            return vals, recs, "raised"
        if replace_constants and is_tensor(r) and r.constant:
            # (a constant *view* is replaced by the NumPy view of the same memory: a later in-place statement on that memory is
            # visible through the view tensor but -- MyGrad swaps the target's array -- not through a plain array, so such
            # programs have no array-replaced counterpart; thorough-tier false alarm, see DESIGN 9.4)
            r = r.data if r.base is not None else np.array(r.data)
            replaced_views.append(r)
        vals.append(r)
    return vals, recs, "ok"


def check(cell):
    import mygrad as mg

    if cell[0] == "nary":
        return check_nary(cell)
    if cell[0] == "allconst":
        return check_allconst(cell)
    if cell[0] == "oper":
        return check_oper(cell)
    if cell[0] == "meth":
        return check_meth(cell)
    kinds, prog = cell
    try:
        vals, recs, status = execute(prog, kinds, False)
    except Skip as e:
        return ("skip", str(e))
    # ---- rule for .constant and rejections
    vi = 2
    for st, rec in zip(prog, recs):
        if rec["kind"] == "inplace":
            if rec.get("must_raise"):
                if rec["raised"] is None:
                    return ("not_rejected", "integer-valued out= target with constant=False accepted in `%s`" % (st,))
                return None
            if rec["raised"] is not None:
                return ("exception", "in-place statement raised %s: %s" % rec["raised"])
            t = vals[rec["tgt"]]
            if t.constant is not rec["flag"]:
                return ("constant_flag", "in-place target changed its flag from %r to %r" % (rec["flag"], t.constant))
            for k, (fb, fa) in enumerate(zip(rec.get("flags_before", ()), rec.get("flags_after", ()))):
                if fb is not fa:
                    return ("constant_flag", "the in-place statement `%s` changed the flag of value #%d (not its target) from %r to %r" % (st, k, fb, fa))
            continue
        if rec["must_raise"]:
            if rec["raised"] is None:
                return ("not_rejected", "integer/bool result with constant=False accepted in `%s`" % (st,))
            return None  # program ends at a legitimately rejected statement
        if rec["raised"] is not None:
            return ("exception", "`%s` raised %s: %s" % ((st,) + rec["raised"]))
        r = vals[vi]
        vi += 1
        if not is_tensor(r):
            return ("type", "result is %s" % type(r).__name__)
        if r.constant is not rec["expect"]:
            return ("constant_flag", "`%s`: result.constant is %r, rule says %r" % (st, r.constant, rec["expect"]))
        if not np.array_equal(r.data, rec["ref"]) and st[0] not in ():
            # later in-place statements may have changed a view: only compare at creation time is possible
            pass
    # ---- backward from the last tensor value
    tens = [v for v in vals if is_tensor(v)]
    if not tens:
        return None
    L = vals[-1] if is_tensor(vals[-1]) else tens[-1]
    try:
        L.backward()
    except Exception as e:
        eb = base.exc_brief(e)
        del e
        return ("exception", "backward raised %s: %s" % eb)
    for i, v in enumerate(vals):
        if is_tensor(v) and v.constant and v.grad is not None:
            return ("grad_on_constant", "value #%d is constant yet exposes a gradient %s" % (i, v.grad))
    gradsA = [(v.grad.copy() if is_tensor(v) and v.grad is not None else None) for v in vals]
    # ---- differential: constants replaced by ndarrays
    base.reset_mygrad()
    try:
        valsB, recsB, statusB = execute(prog, kinds, True)
    except Skip as e:
        return None  # the array-replaced variant is not a legal program (e.g. in-place target became an array view)
    if statusB != "ok" or len(valsB) != len(vals):
        return ("differential", "the program with constants replaced by arrays ended differently (%s)" % statusB)
    LB = valsB[-1] if is_tensor(valsB[-1]) else [v for v in valsB if is_tensor(v)][-1:]
    if isinstance(LB, list):
        if not LB:
            return None
        LB = LB[0]
    if not (is_tensor(L) and not L.constant):
        return None
    try:
        LB.backward()
    except Exception as e:
        eb = base.exc_brief(e)
        del e
        return ("differential", "backward of the array-replaced program raised %s: %s" % eb)
    for i, (va, vb) in enumerate(zip(vals, valsB)):
        if is_tensor(va) and not va.constant:
            if not is_tensor(vb):
                return ("differential", "value #%d is a non-constant tensor only in the original program" % i)
            ga, gb = gradsA[i], vb.grad
            if (ga is None) != (gb is None) or (ga is not None and not (ga.shape == gb.shape and np.allclose(ga, gb, rtol=1e-12, atol=0))):
                return ("differential", "value #%d: grad %s with constant tensors, %s with plain arrays" % (i, ga, gb))
    return None


NARY = {
    "multi_matmul3": ([(2, 2), (2, 2), (2,)], lambda mg, a: mg.multi_matmul(a)),
    "multi_matmul3_lead1d": ([(2,), (2, 2), (2, 2)], lambda mg, a: mg.multi_matmul(a)),
    "multi_matmul4": ([(2, 2), (2, 2), (2, 2), (2,)], lambda mg, a: mg.multi_matmul(a)),
    "add_sequence3": ([(2,), (2,), (2,)], lambda mg, a: mg.add_sequence(*a)),
    "multiply_sequence3": ([(2,), (2,), (2,)], lambda mg, a: mg.multiply_sequence(*a)),
    "concatenate3": ([(2,), (2,), (2,)], lambda mg, a: mg.concatenate(a)),
    "stack3": ([(2,), (2,), (2,)], lambda mg, a: mg.stack(a)),
    "einsum3": ([(2, 2), (2, 2), (2,)], lambda mg, a: mg.einsum("ij,jk,k->i", *a)),
    "where": ([(2,), (2,)], lambda mg, a: mg.where(np.array([True, False]), *a)),
    "matmul": ([(2, 2), (2,)], lambda mg, a: mg.matmul(*a)),
    "maximum": ([(2,), (2,)], lambda mg, a: mg.maximum(*a)),
    "clip3": ([(2,), (), ()], lambda mg, a: mg.clip(a[0], mg.minimum(a[1], a[2]), mg.maximum(a[1], a[2]) + 3.0)),
}
NARY_KINDS = ["fvar", "fconst", "nd"]


def nary_cells():
    for name, (shapes, _) in NARY.items():
        for kinds in itertools.product(NARY_KINDS, repeat=len(shapes)):
            for c in CONSTS:
                yield ("nary", name, kinds, c)


def check_nary(cell):
    import mygrad as mg
    from specs.ops import vals

    _, name, kinds, c = cell
    shapes, fn = NARY[name]

    def build(replace):
        out = []
        for i, (sh, k) in enumerate(zip(shapes, kinds)):
            v = vals(sh, 1 + 5 * i)
            if k == "nd" or (replace and k == "fconst"):
                out.append(v.copy())
            else:
                out.append(mg.tensor(v, constant=(k == "fconst")))
        return out

    A = build(False)
    try:
        r = fn(mg, A) if c is None else None
        if c is not None:
            return ("skip", "constant= is exercised on the function forms of the program cells")
    except Exception as e:
        eb = base.exc_brief(e)
        del e
        return ("exception", "%s raised %s: %s" % ((name,) + eb))
    expect = all(k != "fvar" for k in kinds)
    if r.constant is not expect:
        return ("constant_flag", "%s with operand kinds %r: result.constant is %r" % (name, kinds, r.constant))
    r.backward()
    for t, k in zip(A, kinds):
        if k == "fconst" and t.grad is not None:
            return ("grad_on_constant", "%s: a constant operand exposes a gradient" % name)
        if k == "fvar" and t.grad is None:
            return ("grad_none", "%s with operand kinds %r: a non-constant operand received no gradient" % (name, kinds))
    base.reset_mygrad()
    B = build(True)
    rb = fn(mg, B)
    rb.backward()
    for ta, tb, k in zip(A, B, kinds):
        if k == "fvar" and not np.allclose(ta.grad, tb.grad, rtol=1e-12, atol=0):
            return ("differential", "%s %r: gradient differs when the constant tensors are replaced by arrays" % (name, kinds))
    return None


OPERATORS = {"add": "add", "sub": "subtract", "mul": "multiply", "truediv": "divide", "pow": "power"}
# operand kinds of the operator cells: the leaf kinds plus 0-d tensors/arrays holding the values for which operators have shortcuts
OPKINDS = ["fvar", "fconst", "itens", "nd", "sc", "fvar0:1", "fvar0:2", "fvar0:3", "fvar0:0", "fconst0:2", "fconst0:1", "i0:2", "nd0:2", "sc:2", "sc:1", "f32var0:2"]


def make_opkind(kind, which):
    import mygrad as mg

    if ":" in kind:
        k, v = kind.split(":")
        v = float(v)
        return {"fvar0": lambda: mg.tensor(v), "fconst0": lambda: mg.tensor(v, constant=True), "i0": lambda: mg.tensor(int(v)), "nd0": lambda: np.array(v), "sc": lambda: v,
                "f32var0": lambda: mg.tensor(np.float32(v))}[k]()
    return make_leaf(kind, which)


METHODS = {
    "astype_same_nocopy": lambda x, c: x.astype(x.dtype, copy=False, constant=c),
    "astype_same_copy": lambda x, c: x.astype(x.dtype, constant=c),
    "astype_f32": lambda x, c: x.astype("float32", constant=c),
    "astype_f32_nocopy": lambda x, c: x.astype("float32", copy=False, constant=c),
    "astype_f64_nocopy": lambda x, c: x.astype(np.float64, copy=False, constant=c),
    "astype_i32": lambda x, c: x.astype("int32", constant=c),
    "m_sum": lambda x, c: x.sum(constant=c),
    "m_mean": lambda x, c: x.mean(constant=c),
    "m_reshape": lambda x, c: x.reshape(2, 1, constant=c),
    "m_transpose": lambda x, c: x.transpose(constant=c),
    "m_flatten": lambda x, c: x.flatten(constant=c),
    "m_squeeze": lambda x, c: x.squeeze(constant=c),
    "m_swapaxes": lambda x, c: x.reshape(2, 1).swapaxes(0, 1, constant=c),
    "m_ravel": lambda x, c: x.ravel(constant=c),
    "m_max": lambda x, c: x.max(constant=c),
    "m_prod": lambda x, c: x.prod(constant=c),
    "m_cumsum": lambda x, c: x.cumsum(constant=c),
    "m_clip": lambda x, c: x.clip(-1, 1, constant=c),
    "m_std": lambda x, c: x.std(constant=c),
    "m_matmul": lambda x, c: __import__("mygrad").matmul(x, x, constant=c),
    "f_astensor": lambda x, c: __import__("mygrad").astensor(x, constant=c),
    "f_astensor_f32": lambda x, c: __import__("mygrad").astensor(x, dtype="float32", constant=c),
    "f_tensor": lambda x, c: __import__("mygrad").tensor(x, constant=c),
    "f_tensor_nocopy": lambda x, c: __import__("mygrad").tensor(x, copy=False, constant=c),
    "f_zeros_like": lambda x, c: __import__("mygrad").zeros_like(x, constant=c),
    "f_ones_like_f32": lambda x, c: __import__("mygrad").ones_like(x, dtype="float32", constant=c),
    "f_full_like": lambda x, c: __import__("mygrad").full_like(x, 2, constant=c),
}
# result flag when constant= is None: "follow" the operand (operations), "dtype" (constructors: float -> non-constant), None = not claimed
METHOD_DEFAULT = {k: ("follow" if k.startswith("m_") else None if k.startswith("astype") else "follow" if k.startswith("f_astensor") else "dtype") for k in METHODS}
METHOD_DEFAULT["f_astensor_f32"] = None
METHOD_DEFAULT["f_tensor_nocopy"] = None  # (may hand back its argument)
for _k in ("f_zeros_like", "f_ones_like_f32", "f_full_like"):
    METHOD_DEFAULT[_k] = "follow"  # documented: "inferred from `other`, if other is a tensor"


# functions applied to integer / boolean / constant-float tensors only: every input is constant, so must the result be (also when it is float-valued)
def _allconst_table():
    import mygrad as mg
    from mygrad.linalg import norm
    from mygrad.nnet import activations as A
    from mygrad.nnet import losses as Lo

    t = {}
    for o in (None, 1, 2, 3, np.inf, -np.inf, 0.5):
        t["norm ord=%r" % (o,)] = (lambda o: lambda x: norm(x, ord=o))(o)
        t["norm ord=%r axis=0" % (o,)] = (lambda o: lambda x: norm(x, ord=o, axis=0))(o)
    for f in ("sum", "mean", "var", "std", "prod", "max", "min", "cumsum", "cumprod", "sqrt", "exp", "log1p", "sin", "tanh", "square", "cbrt", "abs", "negative", "positive", "reciprocal", "sinc"):
        t[f] = (lambda f: lambda x: getattr(mg, f)(x))(f)
    t["divide"] = lambda x: mg.divide(x, x + 1)
    t["x / 2"] = lambda x: x / 2
    t["x * 0.5"] = lambda x: x * 0.5
    t["x ** 2"] = lambda x: x ** 2
    t["x ** 0.5"] = lambda x: x ** 0.5
    t["matmul"] = lambda x: mg.matmul(x, x)
    t["einsum"] = lambda x: mg.einsum("ij,jk->ik", x, x)
    t["where"] = lambda x: mg.where(x > 1, x, 0.5)
    t["clip"] = lambda x: mg.clip(x, 1, 3)
    t["maximum"] = lambda x: mg.maximum(x, 1.5)
    t["logaddexp"] = lambda x: mg.logaddexp(x, x)
    t["arctan2"] = lambda x: mg.arctan2(x, x)
    t["stack"] = lambda x: mg.stack([x, x])
    t["concatenate"] = lambda x: mg.concatenate([x, x])
    t["add_sequence"] = lambda x: mg.add_sequence(x, x, 1.5)
    t["multiply_sequence"] = lambda x: mg.multiply_sequence(x, x, 0.5)
    t["softmax"] = lambda x: A.softmax(x)
    t["logsoftmax"] = lambda x: A.logsoftmax(x)
    t["sigmoid"] = lambda x: A.sigmoid(x)
    t["relu"] = lambda x: A.relu(x)
    t["transpose"] = lambda x: x.T
    t["getitem"] = lambda x: x[0]
    t["reshape"] = lambda x: x.reshape(4)
    t["astype"] = lambda x: x.astype("float64") if x.dtype.kind != "f" else None  # constructor: not an operation (float -> non-constant by default)
    return t


_ALLCONST = {}
ALLCONST_NAMES = ["norm ord=%r%s" % (o, a) for o in (None, 1, 2, 3, np.inf, -np.inf, 0.5) for a in ("", " axis=0")] + [
    "sum", "mean", "var", "std", "prod", "max", "min", "cumsum", "cumprod", "sqrt", "exp", "log1p", "sin", "tanh", "square", "cbrt", "abs", "negative", "positive", "reciprocal", "sinc",
    "divide", "x / 2", "x * 0.5", "x ** 2", "x ** 0.5", "matmul", "einsum", "where", "clip", "maximum", "logaddexp", "arctan2", "stack", "concatenate", "add_sequence",
    "multiply_sequence", "softmax", "logsoftmax", "sigmoid", "relu", "transpose", "getitem", "reshape"]


def check_allconst(cell):
    import mygrad as mg

    _, name, kind = cell
    if not _ALLCONST:
        _ALLCONST.update(_allconst_table())
    src = {"int": lambda: mg.tensor([[1, 2], [3, 4]]), "bool": lambda: mg.tensor([[True, False], [True, True]]), "fconst": lambda: mg.tensor([[1.0, 2.0], [3.0, 4.0]], constant=True),
           "i8": lambda: mg.tensor(np.array([[1, 2], [3, 4]], dtype=np.int8))}[kind]()
    try:
        with np.errstate(all="ignore"):
            r = _ALLCONST[name](src)
    except Exception as e:
        eb = base.exc_brief(e)
        del e
        return ("skip", "%s rejects this operand (%s)" % (name, eb[0]))
    if r is None or not is_tensor(r):
        return ("skip", "no tensor result")
    if r.constant is not True:
        return ("constant_flag", "%s of a %s tensor (every input constant) returned a non-constant %s tensor" % (name, kind, r.dtype))
    return None


def call_cells():
    for name in ALLCONST_NAMES:
        for kind in ("int", "bool", "fconst", "i8"):
            yield ("allconst", name, kind)
    for o in OPERATORS:
        for kl in OPKINDS:
            for kr in OPKINDS:
                yield ("oper", o, kl, kr)
    for m in METHODS:
        for k in ("fvar", "fconst", "itens", "btens", "cview"):
            for c in CONSTS:
                yield ("meth", m, k, c)


def check_oper(cell):
    import operator

    import mygrad as mg

    _, o, kl, kr = cell

    def run(use_operator):
        base.reset_mygrad()
        a, b = make_opkind(kl, 0), make_opkind(kr, 1)
        if not (is_tensor(a) or is_tensor(b)):
            raise Skip("no tensor operand")
        try:
            np_r = getattr(operator, o)(data_of(a), data_of(b))
        except Exception as e:
            del e
            raise Skip("numpy rejects")
        r = getattr(operator, o)(a, b) if use_operator else getattr(mg, OPERATORS[o])(a, b)
        return a, b, r, np_r

    try:
        a, b, r, np_r = run(True)
    except Skip as e:
        return ("skip", str(e))
    except Exception as e:
        eb = base.exc_brief(e)
        del e
        return ("exception", "operator raised %s: %s" % eb)
    if not is_tensor(r):
        return ("type", "result is %s" % type(r).__name__)
    isfloat = np.issubdtype(np.asarray(np_r).dtype, np.floating)
    expect = (not isfloat) or all((v.constant if is_tensor(v) else True) for v in (a, b))
    if r.constant is not expect:
        return ("constant_flag", "result.constant is %r, rule says %r" % (r.constant, expect))
    r.backward()
    got = []
    for name, v in (("left", a), ("right", b)):
        if is_tensor(v) and v.constant and v.grad is not None:
            return ("grad_on_constant", "%s operand is constant yet exposes a gradient" % name)
        if is_tensor(v) and not v.constant and v.grad is None and not r.constant:
            return ("grad_none", "%s operand is a non-constant input of a non-constant result yet has no gradient" % name)
        got.append(None if not is_tensor(v) or v.grad is None else v.grad.copy())
    a2, b2, r2, _ = run(False)
    r2.backward()
    for name, g, v in zip(("left", "right"), got, (a2, b2)):
        g2 = v.grad if is_tensor(v) else None
        if (g is None) != (g2 is None) or (g is not None and not (g.shape == g2.shape and np.allclose(g, g2, rtol=1e-6, atol=0, equal_nan=True))):
            return ("differential", "%s operand: gradient %s via the operator, %s via mg.%s" % (name, g, g2, OPERATORS[o]))
    return None


def make_cview():
    """a constant view (explicit constant=True) of a non-constant tensor"""
    import mygrad as mg

    b = mg.tensor(np.array([0.5, -1.25]))
    v = mg.reshape(b, (2,), constant=True)
    v.hold = b
    return v


def check_meth(cell):
    import mygrad as mg

    _, m, k, c = cell
    x = make_leaf(k, 0) if k != "cview" else make_cview()
    isfloat_src = x.dtype.kind == "f"
    try:
        r = METHODS[m](x, c)
        raised = None
    except Exception as e:
        raised = base.exc_brief(e)
        del e
    if raised is not None:
        # which dtype would the result have had?
        try:
            r0 = METHODS[m](make_leaf(k, 0), True)
            res_float = r0.dtype.kind == "f"
        except Exception as e:
            del e
            return ("skip", "the call is rejected whatever the flag")
        if c is False and not res_float:
            return None
        return ("exception", "%s(constant=%r) on a %s raised %s: %s" % ((m, c, k) + raised))
    if not is_tensor(r):
        return ("type", "result is %s" % type(r).__name__)
    res_float = r.dtype.kind == "f"
    if not res_float:
        if c is False:
            return ("not_rejected", "%s(constant=False) returned an integer/bool tensor" % m)
        expect = True
    elif c is not None:
        expect = c
    else:
        d = METHOD_DEFAULT[m]
        expect = x.constant if d == "follow" else False if d == "dtype" else None
    if expect is not None and r.constant is not expect:
        return ("constant_flag", "%s(constant=%r) on a %s: result.constant is %r, rule says %r" % (m, c, k, r.constant, expect))
    # a non-constant result can carry a gradient; a constant one never does
    try:
        (r * 1.0).sum().backward()
    except Exception as e:
        eb = base.exc_brief(e)
        del e
        return ("exception", "backward raised %s: %s" % eb)
    if r.constant and r.grad is not None:
        return ("grad_on_constant", "constant result of %s exposes a gradient" % m)
    if not r.constant and r.grad is None:
        return ("grad_none", "non-constant result of %s(constant=%r) on a %s received no gradient" % (m, c, k))
    if x.constant and x.grad is not None:
        return ("grad_on_constant", "constant operand of %s exposes a gradient" % m)
    return None


def cells(tier):
    yield from nary_cells()
    yield from call_cells()
    depth = BOUNDS[tier]
    for ka in LEAF_KINDS:
        for kb in LEAF_KINDS:
            for prog in programs(depth):
                yield ((ka, kb), prog)


def steps(cell):
    return 1 if cell[0] in ("nary", "oper", "meth", "allconst") else len(cell[1])


def nontrivial(cell):
    if cell[0] in ("nary", "oper", "meth", "allconst"):
        return True
    kinds, prog = cell
    return any(k in ("fconst", "itens", "btens", "nd", "sc") for k in kinds) or any(st[2] is not None for st in prog)


def outcome(cell):
    return "ok:" + cell[0] if cell[0] in ("nary", "oper", "meth", "allconst") else "ok:%d statements" % len(cell[1])


def plan(tier, seed):
    from mc import conf

    me = __import__("harness.C10", fromlist=["x"])
    d = conf.make_plan(
        me, tier, seed, nchunks=64,
        rule="all programs up to n statements over {add, multiply, negative, sum, reshape (all with constant=None/True/False), [::-1], +=, [0]=} "
        "with operands ranging over both leaves and all earlier results x all 36 leaf-kind assignments; statements NumPy itself rejects are skipped; "
        "plus n-ary cells x all constness assignments, operator cells over operand kinds incl. 0-d tensors holding shortcut values, and method/constructor cells x constant=; "
        "states = distinct executed (kinds, program) cells; non-trivial = some leaf is not a float variable or some statement passes constant=",
        bounds={"max_statements": BOUNDS[tier], "leaf_kinds": LEAF_KINDS},
        assumptions=["the .constant rule is the one quoted in the property; the differential run replaces each constant tensor by a copy of its data as soon as it is created"],
    )
    return d


def replay(case):
    from mc import conf

    return conf.replay_cell(__import__("harness.C10", fromlist=["x"]), case)


def render_prog(kinds, prog):
    names = ["a", "b"]
    lines = ["import mygrad as mg, numpy as np", "# leaf kinds: a=%s b=%s" % tuple(kinds)]
    for form, ops, c in prog:
        a = [names[i] for i in ops]
        if form == "iadd":
            lines.append("%s += %s" % tuple(a))
            continue
        if form == "set0":
            lines.append("%s[0] = %s" % tuple(a))
            continue
        if form == "addout":
            lines.append("mg.add(%s, %s, out=%s, constant=%r)" % (a[0], a[1], a[2], c))
            continue
        out = "v%d" % (len(names) - 2)
        call = {"add": "mg.add(%s, %s, constant=%r)", "mul": "mg.multiply(%s, %s, constant=%r)", "neg": "mg.negative(%s, constant=%r)",
                "sum0": "mg.sum(%s, axis=0, keepdims=True, constant=%r)", "reshape": "mg.reshape(%s, (-1, 1), constant=%r)", "rev": "%s[::-1]"}[form]
        lines.append("%s = %s" % (out, call % tuple(a + ([c] if form != "rev" else []))))
        names.append(out)
    lines.append("%s.backward()" % names[-1])
    return "\n".join(lines) + "\n"


def finalize(v):
    from mc import conf

    me = __import__("harness.C10", fromlist=["x"])
    me.script = lambda cell, f: ("# %s cell %r\n# %s: %s\n" % (cell[0], cell, f[0], f[1])) if cell[0] in ("nary", "oper", "meth", "allconst") else render_prog(cell[0], cell[1]) + "# %s: %s\n" % (f[0], f[1])
    me.signature = lambda cell, f: base.stable_hash((cell[0], cell[1], f[0])) if cell[0] in ("nary", "oper", "meth", "allconst") else base.stable_hash((tuple(st[0] for st in cell[1]), tuple(st[2] for st in cell[1]), f[0], f[1][:30]))
    return conf.finalize_cell(me, v)


def m_constant_view_reports_grad(v):
    """F-C10: a view created with constant=True of a non-constant base exposes a .grad through the
    view-gradient path after backward."""
    f = v.get("failure") or {}
    cell = (v.get("case") or {}).get("cell") or [None, []]
    if cell[0] in ("nary", "oper", "meth", "allconst"):
        return False
    return f.get("kind") == "grad_on_constant" and any(st[0] == "reshape" and st[2] is True for st in cell[1])


def m_view_behind_constant_link(v):
    """F-C10b: a non-constant view (explicit constant=False) taken of a *constant view* of a non-constant base reports .grad None:
    Tensor.grad mirrors the base's gradient through the chain of views, and no gradient passes the constant link."""
    f = v.get("failure") or {}
    cell = (v.get("case") or {}).get("cell") or [None]
    return (cell[0] == "meth" and len(cell) == 4 and cell[2] == "cview" and cell[3] is False and f.get("kind") == "grad_none"
            and cell[1] in ("m_transpose", "m_ravel", "m_squeeze", "m_swapaxes", "m_reshape"))


MATCHERS = {"constant_view_reports_grad": m_constant_view_reports_grad, "view_behind_constant_link": m_view_behind_constant_link}
