"""C13 -- a failed operation leaves no trace (HIST engine, fault enumeration).

For every history of the view / non-view / in-place alphabet up to the depth bound (optionally with one
backward in the middle, so that disconnected views exist), every insertion position and every kind of
failing statement applicable there (failing non-view op, failing view op, failing in-place update on a
base / on a view: shape mismatch, bad index, bad axis, bad out= dtype), the run *with* the failing
statement is compared with the run *without*: the observable state after every statement (data,
constant, .base, sharing pattern, creator kind, live consumers, writeable flags) and the final
gradients must be identical, and the failing statement must raise."""
import numpy as np

from mc import base, csad, explore
from mc.hist import Impl, Model, render, script, tuplify

PROPERTY = "C13"
LEVEL = "fault_enumeration"

CFG = dict(
    value_only=("y",),
    views=("s1", "rev", "na", "T", "flat", "all"),
    ops1=("mul2",),
    set_idx=("s1", "i0"),
    iops=("iadd", "imul"),
    outs=(("add", None), ("multiply", 0)),
    max_live=5,
    set_all_tensor=False,
)
CFG_RO = dict(CFG, set_idx=(), iops=(), outs=(), views=("s1", "rev", "all"), ops1=("mul2", "sq2"))
WORLDS = {
    "x4ro": [("x", (4,), 0, False, "ro"), ("y", (3,), 5, False)],
    "x4": [("x", (4,), 0, False), ("y", (3,), 5, False)],
    "x23": [("x", (2, 3), 0, False), ("y", (3,), 7, False)],
}
# worlds that start from a pre-built view family (prefix statements are part of every history of that world)
PREFIX = {"x4vv": [("view", "v", "x", "all"), ("view", "vv", "v", "all")]}
WORLDS["x4vv"] = [("x", (4,), 0, False), ("y", (3,), 5, False)]
CFG_VV = dict(CFG, views=("s1",), ops1=("mul2",), set_idx=("s1",), iops=("iadd",), outs=(), leaf_backward=True)
# an op that consumes two members of one view family exists before the failure (a rollback has several placeholders to swap back in it)
PREFIX["x4fam"] = [("view", "v", "x", "rev"), ("op2", "w", ("t", "x"), ("t", "v"), "mul"), ("op2", "u", ("t", "v"), ("t", "v"), "cat")]
WORLDS["x4fam"] = [("x", (4,), 0, False), ("y", (3,), 5, False)]
BOUNDS = {"quick": [("x4", 3, 1), ("x23", 2, 1), ("x4ro", 3, 1), ("x4vv", 3, 1), ("x4fam", 2, 1)],
          "thorough": [("x4", 3, 2), ("x23", 3, 1), ("x4", 4, 1), ("x4ro", 4, 1), ("x4vv", 4, 1), ("x4fam", 3, 1)]}

FAULTS = {
    # name -> (code, callable(impl, t), applicable(shape))
    "f_op": ("{0} + np.zeros(7)", lambda im, t: t + np.zeros(7), lambda s: len(s) >= 1 and s[-1] not in (1, 7)),
    "f_view": ("{0}.reshape(7)", lambda im, t: t.reshape(7), lambda s: True),
    "f_index": ("{0}[99]", lambda im, t: t[99], lambda s: len(s) >= 1),
    "f_axis": ("{0}.sum(axis=5)", lambda im, t: t.sum(axis=5), lambda s: True),
    "f_set": ("{0}[...] = np.zeros(7)", lambda im, t: t.__setitem__(..., np.zeros(7)), lambda s: True),
    "f_setidx": ("{0}[99] = 1.0", lambda im, t: t.__setitem__(99, 1.0), lambda s: len(s) >= 1),
    "f_iadd": ("{0} += np.zeros(7)", lambda im, t: t.__iadd__(np.zeros(7)), lambda s: True),
    "f_out": ("mg.multiply({0}, np.zeros(7), out={0})", lambda im, t: im.mg.multiply(t, np.zeros(7), out=t), lambda s: True),
    "f_outdtype": ("mg.add({0}, 1.0, out={0}, dtype=np.int32)", lambda im, t: im.mg.add(t, 1.0, out=t, dtype=np.int32), lambda s: True),
    "f_clip_out": ("mg.clip({0}, 1.0, np.ones(7), out={0})", lambda im, t: im.mg.clip(t, 1.0, np.ones(7), out=t), lambda s: True),
    # an operand that cannot become a tensor, placed *after* a valid one (the valid one has been seen / locked by then)
    "f_badoperand": ("{0} + 'a'", lambda im, t: t + "a", lambda s: True),
    "f_badoperand_fn": ("mg.multiply({0}, 1j)", lambda im, t: im.mg.multiply(t, 1j), lambda s: True),
    "f_badoperand3": ("mg.add_sequence({0}, {0}, 'a')", lambda im, t: im.mg.add_sequence(t, t, "a"), lambda s: True),
    "f_badoperand_w": ("mg.where({0} > 0, {0}, object())", lambda im, t: im.mg.where(t.data > 0, t, object()), lambda s: True),
    "f_intconst": ("mg.add(mg.tensor([1]), mg.tensor([2]), constant=False)  # rejected after its forward pass",
                   lambda im, t: im.mg.add(im.ints[0], im.ints[1], constant=False), lambda s: True),
}
# valid statements that must fail because the target's memory is natively read-only
RO_FAULTS = {
    "f_ro_set": ("{0}[...] = 0.5", lambda im, t: t.__setitem__(..., 0.5), lambda s: True),
    "f_ro_iadd": ("{0} += 1.0", lambda im, t: t.__iadd__(1.0), lambda s: True),
    "f_ro_out": ("mg.multiply({0}, 2.0, out={0})", lambda im, t: im.mg.multiply(t, 2.0, out=t), lambda s: True),
}
FAULTS.update(RO_FAULTS)


def observe(impl):
    names = impl.order
    out = []
    for n in names:
        t = impl.t[n]
        b = t.base
        bname = None
        if b is not None:
            bname = "<internal>"
            for k in names:
                if impl.t[k] is b:
                    bname = k
        d = t.data
        u = d
        while u.base is not None:
            u = u.base
        # a view of a read-only array cannot be made writeable again (NumPy refuses): its flag is only
        # comparable while its owner is writeable
        wflag = bool(d.flags.writeable) if (u is d or u.flags.writeable) else None
        # the creator's inputs, by slot name (a rollback that leaves an op wired to an internal placeholder shows up here)
        cin = None
        if t._creator is not None:
            cin = tuple(next((k for k in names if impl.t[k] is v), "<internal>") for v in t._creator.variables)
        out.append((n, t.data.shape, t.data.tobytes(), t.constant, bname, wflag,
                    type(t._creator).__name__, sum(1 for r in t._ops if r() is not None), cin))
    sh = tuple(np.shares_memory(impl.t[a].data, impl.t[b].data) for i, a in enumerate(names) for b in names[i + 1:])
    for k, t in enumerate(getattr(impl, "ints", ())):
        out.append(("<int tensor %d>" % k, t.data.shape, t.data.tobytes(), t.constant, None, bool(t.data.flags.writeable), type(t._creator).__name__,
                    sum(1 for r in t._ops if r() is not None), None))
    return (tuple(out), sh)


def diff(a, b):
    for x, y in zip(a[0], b[0]):
        if x != y:
            fields = ("name", "shape", "data", "constant", "base", "writeable", "creator", "live consumers", "creator inputs")
            for f, u, v in zip(fields, x, y):
                if u != v:
                    if f == "data":
                        u, v = np.frombuffer(u), np.frombuffer(v)
                    return "%s of %s: without fault %s, with fault %s" % (f, x[0], u, v)
    if a[1] != b[1]:
        return "sharing pattern differs"
    if len(a[0]) != len(b[0]):
        return "different number of tensors"
    return None


def execute(init, h, seed, fault=None):
    """h may contain ('bwall',); fault = (position, fname, target).  -> (observations, grads, failure)"""
    base.reset_mygrad()
    impl = Impl(init, seed)
    impl.ints = (impl.mg.tensor([1, 2]), impl.mg.tensor([3, 4]))
    obs = [observe(impl)]
    failure = None
    k = 0
    seq = list(h)
    if fault is not None:
        seq = seq[: fault[0]] + [("fault",) + tuple(fault[1:])] + seq[fault[0]:]
    for st in seq:
        st = tuple(st)
        if st[0] == "fault":
            raised = False
            o_handler = None
            try:
                FAULTS[st[1]][1](impl, impl.t[st[2]])
            except Exception as e:
                raised = True
                # what a caller sees *inside* its except block (exception and traceback still alive)
                o_handler = observe(impl)
                del e
            if raised and o_handler is not None:
                d = diff(obs[-1], o_handler)
                if d is not None:
                    failure = ("state_changed_by_failed_op", "(observed inside the except block) " + d)
                    break
            if not raised:
                failure = ("harness", "fault statement did not raise: %r" % (st,))
                break
            o = observe(impl)
            d = diff(obs[-1], o)
            if d is not None:
                failure = ("state_changed_by_failed_op", d)
                break
            continue
        try:
            if st[0] == "bwall":
                L = csad.terminal_all_impl(impl)
                L.backward()
                del L
            elif st[0] == "backward":
                impl.t[st[1]].backward()
            else:
                impl.apply(st)
        except Exception as e:
            eb = base.exc_brief(e)
            del e
            failure = ("exception", "%s: %s at `%s`" % (eb + (render(st),)))
            break
        obs.append(observe(impl))
    grads = None
    if failure is None:
        try:
            L = csad.terminal_all_impl(impl)
            L.backward()
            del L
            grads = tuple((n, None if impl.t[n].grad is None else impl.t[n].grad.tobytes()) for n in impl.order)
            obs.append(observe(impl))
        except Exception as e:
            eb = base.exc_brief(e)
            del e
            failure = ("exception", "%s: %s at final backward" % eb)
    impl.t.clear()
    return obs, grads, failure


def faults_at(model_shapes, live, ro_family=()):
    out = []
    for n in live:
        for f, (code, fn, ok) in FAULTS.items():
            if f in RO_FAULTS and n not in ro_family:
                continue
            if f == "f_intconst" and n != live[0]:
                continue
            if ok(model_shapes[n]):
                out.append((f, n))
    return out


def check_history(init, h, seed, acc, nfaults, first_pos=0):
    """all single (and optionally double) fault insertions into h"""
    A = execute(init, h, seed)
    acc.inc("evaluations")
    if A[2] is not None:
        # the fault-free program itself fails (C04/C05/C07's business): nothing to compare against
        acc.outcome("reference run failed: " + A[2][0])
        return
    # live slots and shapes at each position, from the NumPy model
    m = Model(init, seed=seed)
    pos = []
    for i in range(len(h) + 1):
        ro = [i[0] for i in init if "ro" in [o for o in i[4:] if isinstance(o, str)]]
        pos.append((list(m.order), {n: m.shape(n) for n in m.order}, [n for n in m.order if m.fam[n] in ro]))
        if i < len(h) and h[i][0] not in ("bwall", "backward"):
            m.apply(tuple(h[i]))
    for p, (live, shapes, rofam) in enumerate(pos):
        if p < first_pos:
            continue
        for f, n in faults_at(shapes, [x for x in live if x != "y"], rofam):
            B = execute(init, h, seed, fault=(p, f, n))
            acc.inc("evaluations")
            acc.inc("fault_runs")
            fail = None
            if B[2] is not None:
                if B[2][0] == "harness":
                    acc.inc("harness_errors")
                    acc.notes.add("HARNESS-ERROR %r" % (B[2],))
                    continue
                fail = B[2]
            else:
                for i, (oa, ob) in enumerate(zip(A[0], B[0])):
                    d = diff(oa, ob)
                    if d is not None:
                        fail = ("state_differs_after_fault", "after statement %d: %s" % (i, d))
                        break
                if fail is None and A[1] != B[1]:
                    fail = ("final_grads_differ", "gradients of the program with the failing statement differ")
            if fail is not None:
                acc.violation({"case": {"init": init, "history": h, "seed": seed, "fault": (p, f, n)}, "failure": (p, ("fault", f, n)) + fail})
                acc.outcome("fail:" + fail[0])
            else:
                acc.outcome("ok:" + f)
                acc.nontrivial.add(base.stable_hash((h, p, f, n)))


def enabled(m, cfg, out, nb):
    sts = explore.enabled(m, cfg, out)
    if nb == 0 and len(m.order) > 2:
        sts.append(("bwall",))
        if cfg.get("leaf_backward"):
            sts.append(("backward", "x"))  # x forgets its views, which stay connected to it
    return sts


def cfg_of(wname):
    return CFG_RO if wname == "x4ro" else (CFG_VV if wname in ("x4vv", "x4fam") else CFG)


def run_task(task):
    wname, prefix, depth, nfaults, seed = task
    init = WORLDS[wname]
    acc = base.Acc()
    stack = [list(prefix)]
    pre = list(PREFIX.get(wname, ()))
    while stack:
        h = stack.pop()
        check_history(init, pre + h, seed, acc, nfaults, first_pos=len(pre))
        acc.inc("traces")
        acc.inc("transitions", 1 if h else 0)
        m = Model(init, seed=seed)
        nb = 0
        for st in pre + h:
            if st[0] in ("bwall", "backward"):
                nb += 1
            else:
                m.apply(tuple(st))
        acc.states.add(hash((m.digest(), nb)))
        if len(acc.samples) < 2 and len(h) == depth:
            acc.samples.append("; ".join("L.backward()" if s[0] == "bwall" else render(s) for s in h) + "  x every (position, failing statement)")
        if len(h) < depth:
            for st in reversed(enabled(m, cfg_of(wname), "t%d" % len(h), nb)):
                stack.append(h + [st])
    return acc


def plan(tier, seed):
    tasks = []
    for wname, depth, nf in BOUNDS[tier]:
        init = WORLDS[wname]
        m = Model(init, seed=seed)
        tasks.append((wname, [], 0, nf, seed))
        cfg = cfg_of(wname)
        for pst in PREFIX.get(wname, ()):
            m.apply(pst)
        for st in enabled(m, cfg, "t0", 0):
            m1 = Model(init, seed=seed)
            for pst in PREFIX.get(wname, ()):
                m1.apply(pst)
            if st[0] not in ("bwall", "backward"):
                m1.apply(st)
            tasks.append((wname, [st], 1, nf, seed))
            if depth >= 2:
                for st2 in enabled(m1, cfg, "t1", 1 if st[0] in ("bwall", "backward") else 0):
                    tasks.append((wname, [st, st2], depth, nf, seed))
    return dict(
        tasks=tasks,
        run=run_task,
        rule="every history up to the depth bound x every insertion position x every applicable failing statement x every live "
        "tensor as its operand/target (shape/index/axis/dtype failures, un-castable later operands, read-only targets; worlds incl. pre-built view families "
        "with ops consuming two members); each compared with the fault-free run; non-trivial = distinct (history, position, fault, target)",
        bounds={"%s/depth%d" % (w, d): nf for w, d, nf in BOUNDS[tier]},
        assumptions=[
            "differential oracle: no expected values; the gradient of a failed in-place target right after the failure is not compared (the property is silent)",
            "'place in the graph' observed as creator kind and number of live consumers (private attributes)",
        ],
    )


def replay(case):
    init = [(i[0], tuple(i[1])) + tuple(i[2:]) for i in case["init"]]
    h = [tuplify(s) for s in case["history"]]
    acc = base.Acc()
    fault = tuple(case["fault"])
    A = execute(init, h, case.get("seed", 0))
    B = execute(init, h, case.get("seed", 0), fault=fault)
    if A[2] is not None:
        return []
    if B[2] is not None:
        return [dict(failure=B[2])]
    for i, (oa, ob) in enumerate(zip(A[0], B[0])):
        d = diff(oa, ob)
        if d is not None:
            return [dict(failure=("state_differs_after_fault", "after statement %d: %s" % (i, d)))]
    if A[1] != B[1]:
        return [dict(failure=("final_grads_differ", ""))]
    return []


def finalize(v):
    case = v["case"]
    init = [(i[0], tuple(i[1])) + tuple(i[2:]) for i in case["init"]]
    h = [tuplify(s) for s in case["history"]]
    p, f, n = case["fault"]
    seed = case.get("seed", 0)

    def fails(hh, pp):
        r = replay(dict(init=init, history=hh, seed=seed, fault=(pp, f, n)))
        return r[0]["failure"] if r else None

    f0 = fails(h, p)
    if f0 is None:
        return None
    kind = f0[0]
    from mc.hist import well_formed

    changed = True
    while changed:
        changed = False
        for i in range(len(h) - 1, -1, -1):
            c = h[:i] + h[i + 1:]
            pp = p - 1 if i < p else p
            seq = c[:pp] + [("fail", n)] + c[pp:]
            if not well_formed(init, [s for s in seq if s[0] not in ("bwall", "backward")]):
                continue
            try:
                ff = fails(c, pp)
            except Exception:
                continue
            if ff is not None and ff[0] == kind:
                h, p = c, pp
                changed = True
                break
    ff = fails(h, p)
    lines = ["L.backward()  # weighted sum of all live tensors" if s[0] == "bwall" else render(s) for s in h]
    for wn, pre in PREFIX.items():
        if case.get("world") == wn:
            pass
    lines.insert(p, "try: %s\nexcept Exception: pass   # <- the failing statement" % FAULTS[f][0].format(n))
    return dict(
        case=dict(init=init, history=h, seed=seed, fault=(p, f, n)),
        failure=dict(kind=ff[0], detail=ff[1], fault=f, target=n, position=p),
        script=script(init, [], seed, "\n".join(lines) + "\n# %s: %s\n" % (ff[0], ff[1])),
        signature=base.stable_hash((tuple(s[0] for s in h), f, ff[0])),
        min_history=h,
    )


def m_failed_write_to_disconnected_view(v):
    """F-C13: a failing in-place update whose target is a *disconnected* view (its graph was cleared by an
    earlier backward, .base still pointing at the old base) drops the target's .base before failing."""
    f = v.get("failure") or {}
    h = v.get("min_history") or []
    return f.get("fault") in ("f_set", "f_setidx", "f_iadd", "f_out", "f_outdtype") and any(s[0] == "bwall" for s in h) and "base of" in f.get("detail", "")


MATCHERS = {"failed_write_to_disconnected_view": m_failed_write_to_disconnected_view}
