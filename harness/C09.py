"""C09 -- backprop through a partially cleared graph fails loudly, never silently (HIST engine).

Histories over one leaf x: new ops on any live tensors (re-use after clearing included), in-place
updates, backward()/clear_graph() on any live tensor; every prefix is closed, on a fresh replay, by
L.backward() for every live tensor L.  Outcome must be InvalidBackprop, or gradients equal to the
complex-step derivative of the forward computation *as recorded* (tensors whose creator had been
cleared before an op was recorded are leaves for that op: observed on the real graph at each
clear event and replayed as 'detach' in the complex-step runs).  If L does not depend on the
current value of t, t.grad must be None, zeros or unchanged."""
import numpy as np

from mc import base, csad, explore
from mc.hist import Impl, Model, ddmin, render, script, tuplify

PROPERTY = "C09"
LEVEL = "model_checking"

INIT = [("x", (2,), 0, False), ("y", (2,), 3, False)]
CFG_Q = dict(ops2=("mul",), iops=("iadd",), set_idx=(), clears=("backward",), max_live=4, peek=True, viaview=True, rawwrite=True, outc=(True,))
CFG_T = dict(ops2=("mul", "add"), iops=("iadd", "imul"), set_idx=("i0",), clears=("backward", "clear"), max_live=5, peek=True, viaview=True, rawwrite=True, outc=(True, False))
CFG_Q1 = dict(ops2=("mul",), iops=("iadd",), set_idx=(), clears=("backward",), max_live=5, peek=True, no_y=True)  # one leaf, deeper
# the memory guard as the last line of defence: ops through a transient view, direct writes by the caller, re-use
CFG_Q3 = dict(ops2=("mul",), iops=(), set_idx=(), clears=("backward",), max_live=5, viaview=True, rawwrite=True, no_y=True)
# statements that raise (a failed new op, a failed in-place update) between the clear event and the final backward
CFG_Q4 = dict(ops2=("mul",), iops=(), set_idx=(), clears=("backward",), max_live=4, no_y=True, fails=True)
CFGS = {"q1": CFG_Q1, "q2": CFG_Q, "q3": CFG_Q3, "q4": CFG_Q4, "t": CFG_T}
BOUNDS = {"quick": [("q1", 5), ("q2", 4), ("q3", 5), ("q4", 5)], "thorough": [("q1", 6), ("q3", 6), ("q4", 5), ("t", 5)]}


def enabled(m, cfg, out):
    live = [n for n in m.order if not (cfg.get("no_y") and n == "y")]
    sts = []
    if len(live) < cfg["max_live"]:
        for o in cfg["ops2"]:
            for i, a in enumerate(live):
                for b in live[i:]:
                    sts.append(("op2", out, ("t", a), ("t", b), o))
        if cfg.get("viaview"):
            sts.append(("op1", out, "x", "viaview"))
    for t in live:
        for o in cfg["iops"]:
            sts.append(("iop", t, o, ("c", "c0") if o == "iadd" else ("c", "c2")))
        for i in cfg["set_idx"]:
            sts.append(("set", t, i, ("c", "c1")))
    for t in live:
        for c in cfg["clears"]:
            sts.append((c, t))
    if cfg.get("peek"):
        for t in live:
            sts.append(("peek", t))
    if cfg.get("fails"):
        for t in live:
            sts += [("failop", t), ("failset", t)]
    if cfg.get("rawwrite"):
        sts.append(("rawwrite", "x"))
    for c in cfg.get("outc", ()):
        sts.append(("outc", "x", c))
    return sts


class Exec:
    """replay of a history on impl+model, recording detach events; stops at the first exception"""

    def __init__(self, h, seed):
        base.reset_mygrad()
        self.impl = Impl(INIT, seed)
        self.model = Model(INIT, seed=seed)
        self.ids = {n: id(self.impl.t[n]) for n in self.impl.order}
        self.detach = {}
        self.raw_ok = {}
        self.model.raw_ok = self.raw_ok
        self.failure = None
        self.loud = False
        self.steps = 0
        for i, st in enumerate(h):
            st = tuple(st)
            if st[0] == "rawwrite":
                # the implementation goes first: whether the write is accepted is an observation
                self.impl.apply(st)
                self.raw_ok[i] = bool(self.impl.raw_written)
                self.model.apply(st)
                self.steps += 1
                f = explore.c04_check(self.impl, self.model, self.ids)
                if f is not None:
                    self.failure = (i, st) + f
                    return
                continue
            self.model.apply(st)
            self.impl.detached = None
            try:
                self.impl.apply(st)
            except Exception as e:
                eb = base.exc_brief(e)
                del e
                if st[0] == "backward" and eb[0] == "InvalidBackprop":
                    self.loud = True  # a legitimate loud failure: the branch ends here
                elif st[0] in ("backward", "clear"):
                    self.failure = (i, st, "exception", st[1], "%s: %s" % eb)
                else:
                    self.loud = True
                    self.other_exc = eb
                return
            self.steps += 1
            if self.impl.detached is not None:
                self.detach[i] = self.impl.detached
            if st[0] in ("op2", "op1"):
                self.ids[st[1]] = id(self.impl.t[st[1]])
            f = explore.c04_check(self.impl, self.model, self.ids)
            if f is not None:
                self.failure = (i, st) + f
                return

    def close(self):
        self.impl.t.clear()
        self.impl = self.model = None


def final_check(h, seed, L):
    """fresh replay of h, then L.backward(); returns (outcome, failure)"""
    ex = Exec(h, seed)
    if ex.failure is not None or ex.loud:
        ex.close()
        return "prefix", None
    impl = ex.impl
    before = {n: (None if impl.t[n].grad is None else impl.t[n].grad.copy()) for n in impl.order}
    retried = False
    for attempt in (0, 1):
        try:
            impl.t[L].backward()
            break
        except Exception as e:
            eb = base.exc_brief(e)
            del e
            if eb[0] != "InvalidBackprop":
                ex.close()
                return "exception", ("exception", L, "%s: %s" % eb)
            if attempt == 1:
                ex.close()
                return "InvalidBackprop", None
            # a caller that catches the error and calls backward() on the same tensor again must get the error again
            # (or exact gradients): the failed attempt must not turn the second one into a silent no-op
            retried = True
    m0, exp = csad.expected_grads(INIT, h, seed, terminal=lambda m: m.a[L].sum(), detach=ex.detach, raw_ok=ex.raw_ok)
    out = "grads"
    fail = None
    for n in impl.order:
        g = impl.t[n].grad
        e = exp[n]
        if np.any(e != 0):
            if g is None or not csad.close(g, e):
                fail = ("grad_value", n, "L=%s%s: impl %s expected (forward as recorded) %s" % (L, " (second backward() after an InvalidBackprop)" if retried else "", None if g is None else explore.fmt(g), explore.fmt(e)),
                        dict(got=None if g is None else g.tolist(), exp=e.tolist(), before=None if before[n] is None else before[n].tolist()))
                break
        else:
            b = before[n]
            ok = g is None or not np.any(g) or (b is not None and g.shape == b.shape and np.array_equal(g, b))
            if not ok:
                fail = ("grad_spurious", n, "L=%s does not depend on the current value of %s, yet its grad became %s (before: %s)" % (L, n, explore.fmt(g), None if b is None else explore.fmt(b)))
                break
    ex.close()
    return out, fail


# ------------------------------------------------------------------ every op of the catalogues as the consumer of a cleared intermediate
# a = x0 * 1.0 is shared by two graphs: L1 = (a * 3).sum() and L2 = f(a, other operands...) for every case f of the op catalogue and every
# nnet call; L1.backward() clears a; L2.backward() must raise InvalidBackprop or leave in x0.grad the derivative of L2 as recorded
_CATC = {}


def cat_cells():
    from specs import nnet_calls, ops

    if "ops" not in _CATC:
        out = []
        seen = set()
        for i, c in enumerate(ops.all_cases("quick")):
            if c.get("mask") is not None or c.get("conv") or c.get("dtype") or c.get("sweep") or c.get("zero_where_input_zero") or c.get("gones"):
                continue
            if any(k != "t" for k in (c.get("kinds") or ())) or any(a.size == 0 for a in c["operands"]):
                continue
            key = (c["op"], tuple(a.shape for a in c["operands"]))
            if key in seen:
                continue
            seen.add(key)
            out.append(("op", i, c["name"]))
        _CATC["ops"] = out + [("nnet", n, "") for n in nnet_calls.NAMES]
        _CATC["cases"] = list(ops.all_cases("quick"))
    return _CATC["ops"]


def check_cat(cell):
    import mygrad as mg
    from harness import C02
    from specs import nnet_calls

    base.reset_mygrad()
    cat_cells()
    if cell[0] == "op":
        case = _CATC["cases"][cell[1]]
        if case["name"] != cell[2]:
            return ("harness", "catalogue enumeration is not deterministic")
        arrays = [np.array(a, dtype=np.float64) for a in case["operands"]]
        x0 = mg.tensor(arrays[0].copy())
        a = x0 * 1.0
        rest = [mg.tensor(v.copy()) for v in arrays[1:]]
        f = lambda first: case["mg"](first, *rest)  # noqa: E731
        shadow = lambda v: case["shadow"](v, *arrays[1:])  # noqa: E731
    else:
        ins, fn = nnet_calls.catalogue()[cell[1]]("float64")
        names = list(ins)
        x0 = mg.tensor(ins[names[0]].data.copy())
        a = x0 * 1.0
        rest = [ins[n] for n in names[1:]]
        f = lambda first: fn(first, *rest)  # noqa: E731
        shadow = None
    try:
        L2 = f(a)
    except Exception as e:
        del e
        return ("skip", "forward raised")
    if not isinstance(L2, mg.Tensor) or L2.constant:
        return ("skip", "constant result")
    L1 = (a * 3.0).sum()
    L1.backward()
    stale = None if x0.grad is None else x0.grad.copy()
    for attempt in (0, 1):
        try:
            L2.backward()
        except Exception as e:
            eb = base.exc_brief(e)
            del e
            if eb[0] == "InvalidBackprop":
                continue
            return ("exception", "L2.backward() raised %s: %s" % eb)
        # it returned: the gradient of x0 must be that of L2 as recorded
        if shadow is None:
            return ("silent", "L2.backward() returned although the shared intermediate had been cleared (attempt %d); x0.grad = %s" % (attempt + 1, x0.grad))
        with np.errstate(all="ignore"):
            ref = np.asarray(shadow(arrays[0]))
        exp = C02.cs_expected(lambda v: shadow(v), [arrays[0]], 0, np.ones(np.shape(ref)))
        if x0.grad is None or not C02.compare(x0.grad, exp, 2e-8):
            return ("silent_wrong", "L2.backward() returned (attempt %d) with x0.grad %s; d sum(L2)/d x0 as recorded is %s (gradient left by L1: %s)" % (attempt + 1, None if x0.grad is None else explore.fmt(x0.grad), explore.fmt(exp), None if stale is None else explore.fmt(stale)))
        return None
    return None


def run_cat_task(task):
    _, stride, offset = task
    acc = base.Acc()
    cells = cat_cells()
    for k in range(offset, len(cells), stride):
        r = check_cat(cells[k])
        acc.inc("evaluations")
        if r is not None and r[0] == "skip":
            acc.outcome("skip: " + r[1])
            continue
        acc.inc("traces")
        acc.inc("transitions")
        acc.inc("final_backwards")
        acc.states.add(hash(("cat", k)))
        acc.nontrivial.add(base.stable_hash(("cat", cells[k])))
        if r is not None:
            acc.violation({"case": {"cat": list(cells[k]), "history": [], "L": None}, "failure": (2, ("backward", "L2"), r[0], "x0", r[1])})
            acc.outcome("final:catalogue:" + r[0])
        else:
            acc.outcome("final:catalogue:InvalidBackprop or exact")
    return acc


def run_task(task):
    if task[0] == "cat":
        return run_cat_task(task)
    cfgname, prefix, depth, seed = task
    cfg = CFGS[cfgname]
    acc = base.Acc()
    stack = [list(prefix)]
    while stack:
        h = stack.pop()
        ex = Exec(h, seed)
        acc.inc("evaluations")
        acc.inc("transitions", 1 if h else 0)
        if ex.failure is not None:
            acc.violation({"case": {"history": h, "seed": seed, "L": None}, "failure": ex.failure})
            acc.outcome("fail:" + ex.failure[2])
            ex.close()
            continue
        if ex.loud:
            acc.outcome("branch ended: " + ("InvalidBackprop" if not hasattr(ex, "other_exc") else ex.other_exc[0] + " from non-backward statement (C07's business)"))
            ex.close()
            continue
        acc.states.add(hash((ex.model.digest(), tuple(sorted((k, tuple(v)) for k, v in ex.detach.items())))))
        live = list(ex.model.order)
        model = ex.model
        ex.close()
        has_clear = any(st[0] in ("backward", "clear") for st in h)
        if has_clear:
            for L in live:
                outc, f = final_check(h, seed, L)
                acc.inc("final_backwards")
                acc.outcome("final:" + outc + (":" + f[0] if f else ""))
                if f is not None:
                    acc.violation({"case": {"history": h, "seed": seed, "L": L}, "failure": (len(h), ("backward", L)) + f})
            if any(st[0] in ("iop", "set", "rawwrite", "outc") for st in h):
                acc.nontrivial.add(base.stable_hash(h))
        acc.inc("traces")
        if len(acc.samples) < 2 and len(h) == depth and has_clear:
            acc.samples.append("; ".join(render(s) for s in h) + "; then L.backward() for each live L")
        if len(h) < depth:
            for st in reversed(enabled(model, cfg, "t%d" % len(h))):
                stack.append(h + [st])
    return acc


def plan(tier, seed):
    tasks = []
    for cfgname, depth in BOUNDS[tier]:
        cfg = CFGS[cfgname]
        pre = [[]]
        for _ in range(2):
            nxt = []
            for h in pre:
                m = Model(INIT, seed=seed)
                for st in h:
                    m.apply(st)
                nxt += [h + [st] for st in enabled(m, cfg, "t%d" % len(h))]
            pre = nxt
        tasks += [(cfgname, p, depth, seed) for p in pre]
        tasks += [(cfgname, [], 0, seed)] + [(cfgname, [st], 1, seed) for st in enabled(Model(INIT, seed=seed), cfg, "t0")]
    cfg, depth = CFGS[BOUNDS[tier][-1][0]], BOUNDS[tier][-1][1]
    tasks += [("cat", 16, o) for o in range(16)]
    return dict(
        tasks=tasks,
        run=run_task,
        rule="all statement sequences up to the depth bound over {new op on live tensors, in-place update, backward/clear_graph "
        "on any live tensor, statements that raise (failed op / failed in-place update), ops through transient views, direct writes by the caller}; every history containing a clear event is closed by L.backward() for every live L on a fresh replay (retried once after an InvalidBackprop: the error must repeat); "
        "non-trivial = history with a clear event and an in-place update; plus every op of the catalogues (one case per op and operand-shape pattern, and every "
        "nnet call) as the consumer L2 of an intermediate shared with a graph that is back-propagated first",
        bounds={name: {"depth": d, "alphabet": CFGS[name]} for name, d in BOUNDS[tier]},
        assumptions=[
            "one leaf x:(2,), no held views, only transient ones `x[:1]` (across graph epochs a cleared view's relation to its base is not defined by the property)",
            "which tensors a clear event turns into leaves is read off the implementation's own graph (creator.variables walk)",
            "reference = complex-step derivative with detach at clear events; tolerance 1e-9",
        ],
    )


def _fails(h, seed, L):
    ex = Exec(h, seed)
    f = ex.failure
    loud = ex.loud
    ex.close()
    if f is not None:
        return f
    if loud or L is None:
        return None
    _, f = final_check(h, seed, L)
    return None if f is None else (len(h), ("backward", L)) + f


def replay(case):
    if case.get("cat"):
        c = case["cat"]
        r = check_cat((c[0], c[1], c[2]))
        return [dict(failure=(2, ("backward", "L2"), r[0], "x0", r[1]))] if r is not None and r[0] != "skip" else []
    h = [tuplify(s) for s in case["history"]]
    f = _fails(h, case.get("seed", 0), case.get("L"))
    return [dict(failure=f)] if f is not None else []


def finalize(v):
    import harness.C04 as C04

    case = v["case"]
    if case.get("cat"):
        r = replay(case)
        if not r:
            return None
        f = r[0]["failure"]
        c = case["cat"]
        return dict(case=case, failure=dict(kind=f[2], detail=f[4]), min_history=[],
                    script="# x0 = mg.tensor(...); a = x0 * 1.0; L1 = (a * 3).sum(); L2 = <catalogue case %r>(a, ...); L1.backward(); L2.backward()\n# %s: %s\n" % (c[2] or c[1], f[2], f[4]),
                    signature=base.stable_hash(("cat", str(c[2] or c[1]).split("(")[0].split(" ")[0], f[2])))
    seed, L = case.get("seed", 0), case.get("L")
    h = [tuplify(s) for s in case["history"]]
    f0 = _fails(h, seed, L)
    if f0 is None:
        return None
    kind = f0[2]

    def fails(c):
        if L is not None and L not in [i[0] for i in INIT] + [s[1] for s in c if s[0] in ("op2", "op1")]:
            return False
        f = _fails(c, seed, L)
        return f is not None and f[2] == kind

    hm = ddmin(h, fails, INIT)
    f = _fails(hm, seed, L)
    tail = "%s.backward()\n# %s: %s %s\n" % (L, f[2], f[3], f[4]) if L else "# %s at step %d: %s\n" % (f[2], f[0], f[4])
    return dict(
        case=dict(history=hm, seed=seed, L=L),
        failure=dict(step=f[0], kind=f[2], where=f[3], detail=f[4], extra=f[5] if len(f) > 5 else None),
        script=script(INIT, hm, seed, tail),
        signature=C04.signature(hm + [("backward", L)], f),
        min_history=hm,
    )


def m_stale_consumer_after_clear(v):
    """F-C09: staleness is detected only by an input's consumer set being *empty*; a clear event
    elsewhere empties it and re-using the tensor in a new op refills it, so backward() through the
    stale op no longer raises.  Matched only if, on replay of the minimal history, the graph that
    L.backward() is about to traverse really contains such a stale edge: an op that is no longer
    registered in the consumer set of one of its non-constant inputs (while that set is non-empty)."""
    import weakref

    h = [tuple(s) for s in (v.get("min_history") or [])]
    L = (v.get("case") or {}).get("L")
    seed = (v.get("case") or {}).get("seed", 0)
    if (v.get("failure") or {}).get("kind") not in ("grad_spurious", "grad_value") or L is None:
        return False
    if not any(s[0] in ("backward", "clear") for s in h):
        return False
    first_clear = min(i for i, s in enumerate(h) if s[0] in ("backward", "clear"))
    if not any(s[0] not in ("backward", "clear", "failop", "failset") for s in h[first_clear + 1:]):
        # the finding needs a *successful* re-use of a cleared tensor after the clear event (that is what refills the consumer
        # set); a minimal history in which only statements that raise touch it afterwards is a different defect
        return False
    extra = (v.get("failure") or {}).get("extra") or {}
    if extra.get("before") is not None and extra.get("got") is not None:
        # an *accumulation* onto the gradient left by an earlier pass is a different defect (backward must
        # null the gradients of the graph it traverses): never attributed to this finding
        if np.allclose(np.asarray(extra["got"]), np.asarray(extra["before"]) + np.asarray(extra["exp"]), rtol=1e-9, atol=1e-12) and np.any(np.asarray(extra["before"]) != 0):
            return False
    ex = Exec(h, seed)
    if ex.failure is not None or ex.loud:
        ex.close()
        return False
    if any(ex.raw_ok.values()):
        # a direct write by the caller went through although the written tensor is still part of the graph that is
        # back-propagated: that is a memory-guard failure, never this finding (a stale op holds its lock on the array)
        ex.close()
        return False
    stack = [ex.impl.t[L]]
    seen = set()
    stale = False
    while stack and not stale:
        u = stack.pop()
        if id(u) in seen:
            continue
        seen.add(id(u))
        op = u._creator
        if op is None:
            continue
        for var in op.variables:
            if not var.constant and var._ops and weakref.ref(op) not in var._ops:
                stale = True
            stack.append(var)
    del stack
    ex.close()
    return stale


MATCHERS = {"stale_consumer_after_clear": m_stale_consumer_after_clear}
from harness.C04 import presig  # noqa
