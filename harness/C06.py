"""C06 -- a view's gradient is the corresponding view of its base's gradient (HIST engine).

Histories of view chains and non-view consumers over several base shapes/layouts, closed by a weighted-sum
terminal whose terms are added in *every permutation* (this decides which operation back-propagates into a
base first, i.e. the layout of the first gradient contribution); after backward(), for every view v of
a base b: v.grad is None iff b.grad is None, equals b.grad read through v's chain of view ops, shares
memory with b.grad, a write through v.grad is visible in b.grad; gradients of tensors that do not share
memory do not share memory."""
import itertools

import numpy as np

from mc import base, explore
from mc.hist import Impl, Model, ddmin, render, script, tuplify, weights

PROPERTY = "C06"
LEVEL = "model_checking"

CFG = dict(
    value_only=(),
    views=("all", "s1", "rev", "st2", "na", "T", "flat", "r22", "r32", "rav", "sw", "dg", "c1", "c2", "sq", "i_1"),
    ops1=("mul2", "sq2", "sumc"),
    ops2=(),
    set_idx=(),
    iops=(),
    outs=(),
    max_live=5,
)
WORLDS = {
    "x4": [("x", (4,), 0, False)],
    "x23": [("x", (2, 3), 0, False)],
    "x22": [("x", (2, 2), 0, False)],
    "x23F": [("x", (2, 3), 0, False, "F")],
    "x33": [("x", (3, 3), 0, False)],
}
# thorough: every permutation of the terminal's terms at depth 3 on five bases, and depth 4 on a sub-alphabet (the full alphabet at
# depth 4 is ~20x the quick tier's 3.2 M executions and did not finish within a 4 h run)
WORLDS["x4sub"] = WORLDS["x4"]
WORLDS["x23Fsub"] = WORLDS["x23F"]
CFG_SUB = dict(CFG, views=("s1", "rev", "T", "flat", "na", "dg"), ops1=("mul2", "sumc"))
BOUNDS = {"quick": [("x4", 3), ("x23", 3), ("x22", 3), ("x23F", 3)], "thorough": [("x4", 3), ("x23", 3), ("x22", 3), ("x23F", 3), ("x33", 3), ("x4sub", 4), ("x23Fsub", 4)]}


def cfg_of(wname):
    return CFG_SUB if wname.endswith("sub") else CFG


FULL_PERMS = False  # thorough tier: every permutation of 4 terms (24); quick: rotations and reversals (8)


def terminal(impl, order):
    L = None
    for n in order:
        i = impl.order.index(n)
        term = (weights(impl.t[n].shape, i) * impl.t[n]).sum()
        L = term if L is None else L + term
    return L


def perms(names, full=3):
    if len(names) <= full:
        return list(itertools.permutations(names))
    out = []
    for k in range(len(names)):
        r = names[k:] + names[:k]
        out.append(tuple(r))
        out.append(tuple(reversed(r)))
    return out


def detached_views(model, h, first):
    """views whose chain back to their base was cut by the first epoch's graph clearing: `first` and everything upstream of it had
    their creators cleared; a view is still a view of its base in the second epoch iff no link of its chain is among those"""
    parent = {st[1]: st[2] for st in h}
    D, n = set(), first
    while n is not None:
        D.add(n)
        n = parent.get(n)
    out = set()
    for v in model.order:
        own, n = model.owner(v), v
        while n is not None and n != own and model.fam.get(n) == model.fam[v]:
            if n in D:
                out.add(v)
                break
            n = parent.get(n)
    return out


def oracle(impl, model, exempt=()):
    names = model.order
    for n in names:
        own = model.owner(n)
        t = impl.t[n]
        if own != n and n in exempt and own in impl.t and own == model.fam[n] and t.base is impl.t[own] and t.grad is not None:
            # a view whose chain was cut by an earlier epoch but which MyGrad still presents as a view of `own`: its gradient may
            # be unavailable, but if it reads something, that must be the matching view of own's gradient (never another tensor's)
            gb = impl.t[own].grad
            exp = None if gb is None else np.asarray(gb).reshape(-1)[model.tag[n]]
            if exp is None or t.grad.shape != exp.shape or not np.array_equal(t.grad, exp) or (t.grad.size and not np.shares_memory(t.grad, gb)):
                return ("cut_view_grad", n, "%s (base %s, chain cut in an earlier epoch) reads grad %s; %s.grad through the view chain is %s" % (n, own, explore.fmt(t.grad), own, None if exp is None else explore.fmt(exp)))
        if own == n or n in exempt:
            continue
        b = impl.t[own]
        gv, gb = t.grad, b.grad
        if (gv is None) != (gb is None):
            return ("view_grad_noneness", n, "view %s.grad is %s while base %s.grad is %s" % (n, "None" if gv is None else "array", own, "None" if gb is None else "array"))
        if gb is None:
            continue
        if own != model.fam[n]:
            continue  # the creating slot is gone: tags are not relative to the live owner
        exp = np.asarray(gb).reshape(-1)[model.tag[n]]
        if gv.shape != exp.shape or not np.array_equal(gv, exp):
            return ("view_grad_value", n, "%s.grad %s, base grad read through the view chain %s" % (n, explore.fmt(gv), explore.fmt(exp)))
        if gv.size and not np.shares_memory(gv, gb):
            return ("view_grad_not_shared", n, "%s.grad does not share memory with %s.grad" % (n, own))
    for i, a in enumerate(names):
        for b_ in names[i + 1:]:
            ga, gb = impl.t[a].grad, impl.t[b_].grad
            if ga is None or gb is None:
                continue
            if not np.shares_memory(impl.t[a].data, impl.t[b_].data) and np.shares_memory(ga, gb):
                return ("unrelated_grads_share", a + "," + b_, "tensors do not share memory but their gradients do")
    # a copy owns fresh memory: its gradient (if it carries one over) shares memory with no other tensor's gradient
    for n in names:
        if impl.t[n].grad is None or not impl.t[n].grad.size:
            continue
        c = impl.t[n].copy()
        if c.grad is not None:
            for o in names:
                go = impl.t[o].grad
                if go is not None and go.size and np.shares_memory(c.grad, go):
                    return ("unrelated_grads_share", n, "the gradient of %s.copy() shares memory with %s.grad" % (n, o))
        del c
    # a write through a view's gradient must be visible in the base's gradient
    for n in names:
        own = model.owner(n)
        if own == n or n in exempt or own != model.fam[n] or impl.t[n].grad is None or impl.t[n].grad.size == 0:
            continue
        gv, gb = impl.t[n].grad, impl.t[own].grad
        before = np.asarray(gb).reshape(-1).copy()
        gv[...] = gv + 1.0
        after = np.asarray(gb).reshape(-1)
        exp = before.copy()
        exp[np.unique(model.tag[n])] += 1.0
        if not np.array_equal(after, exp):
            return ("write_through_view_grad", n, "writing through %s.grad is not reflected in %s.grad" % (n, own))
    return None


SEEDS = ("C", "F", "none", "scalar", "row", "rows2")  # rows2: two backward passes seeded with two rows of one array (seeds that do not own their memory)


def seed_grad(shape, kind):
    g = weights(shape, 3)
    return {"C": lambda: np.array(g, order="C"), "F": lambda: np.array(g, order="F"), "none": lambda: None, "scalar": lambda: 1.5,
            "row": lambda: np.array(g[(0,) * (len(shape) - 1)]) if len(shape) > 1 else 2.5, "rows2": lambda: None}[kind]()


def run_one(init, h, seed, order, first=None, direct=None):
    """first: name of the tensor from which a first graph epoch is back-propagated (and cleared) before the terminal is built"""
    r = explore.Run(init, h, seed)
    if r.failure is not None:
        f = r.failure
        r.close()
        return f
    exempt = ()
    if first is not None:
        try:
            L0 = (weights(r.impl.t[first].shape, 7) * r.impl.t[first]).sum()
            L0.backward()
            del L0
        except Exception as e:
            eb = base.exc_brief(e)
            del e
            r.close()
            return (len(h), ("backward0", first), "exception", "", "%s: %s" % eb)
        exempt = detached_views(r.model, h, first)
        f = oracle(r.impl, r.model, exempt)
        if f is not None:
            r.close()
            return (len(h), ("backward0", first)) + f
    try:
        if direct == "rows2":
            L = r.impl.t[order[0]]
            if r.model.owner(order[0]) != order[0]:
                r.close()
                return None  # (a view's graph is gone after its first backward: only memory owners are back-propagated twice)
            G = np.stack([weights(L.shape, 3), weights(L.shape, 5)])
            L.backward(G[0])
            f = oracle(r.impl, r.model, exempt)
            if f is not None:
                r.close()
                return (len(h), ("backward", tuple(order), "first of two seeded passes")) + f
            L.backward(G[1])
        elif direct is not None:
            # the terminal is one of the tensors itself, with a caller-supplied gradient (C / F ordered, broadcast, default)
            L = r.impl.t[order[0]]
            L.backward(seed_grad(L.shape, direct))
        else:
            L = terminal(r.impl, order)
            L.backward()
        del L
    except Exception as e:
        eb = base.exc_brief(e)
        del e
        r.close()
        if first is not None and eb[0] == "InvalidBackprop":
            return None  # the second graph reaches a part cleared by the first epoch: the loud failure C09 asks for
        return (len(h), ("backward",), "exception", "", "%s: %s" % eb)
    f = oracle(r.impl, r.model, exempt)
    r.close()
    return None if f is None else (len(h), ("backward", tuple(order))) + f


def _modes(first):
    if isinstance(first, str) and first.startswith("direct:"):
        return dict(first=None, direct=first.split(":")[1])
    return dict(first=first)


def run_task(task):
    global FULL_PERMS
    wname, prefix, depth, seed = task[:4]
    FULL_PERMS = len(task) > 4 and task[4] == "thorough"
    init = WORLDS[wname]
    acc = base.Acc()
    stack = [list(prefix)]
    while stack:
        h = stack.pop()
        m = Model(init, seed=seed)
        for st in h:
            m.apply(tuple(st))
        names = list(m.order)
        has_view = len(set(m.fam[n] for n in names)) < len(names)
        acc.inc("transitions", 1 if h else 0)
        acc.states.add(m.digest())
        failed = False
        orders = perms(names, 4 if FULL_PERMS else 3) if has_view else [tuple(names)]
        if has_view and len(names) >= 2:
            # terminals that leave one tensor out (a dangling view, or a view consumed only by a constant branch)
            for drop in names:
                rest = [n for n in names if n != drop]
                orders += perms(rest) if len(rest) <= 3 else [tuple(rest)]
        jobs = [(order, None) for order in orders]
        if has_view:
            for n in names:
                jobs += [((n,), "direct:" + k) for k in SEEDS]
        if has_view:
            # two graph epochs: back-propagate from one tensor first (clearing that graph), then use everything in a second graph
            for first in names:
                jobs += [(tuple(names), first), (tuple(reversed(names)), first)]
                if len(names) >= 3:
                    # ... and second graphs that leave one tensor dangling
                    jobs += [(tuple(n for n in names if n != drop), first) for drop in names]
        for order, first in jobs:
            f = run_one(init, h, seed, order, **_modes(first))
            acc.inc("evaluations")
            if f is not None:
                acc.violation({"case": {"init": init, "history": h, "seed": seed, "order": order, "world": wname, "first": first}, "failure": f})
                acc.outcome("fail:" + f[2])
                failed = True
                break
            acc.outcome("ok")
        acc.inc("traces")
        if has_view and not failed:
            acc.nontrivial.add(base.stable_hash(h))
        if len(acc.samples) < 1 and len(h) == depth and has_view:
            acc.samples.append("; ".join(render(s) for s in h) + "; L = sum of (w_i*t_i).sum() in every order of the terms; L.backward()")
        if len(h) < depth and not failed:
            for st in reversed(explore.enabled(m, cfg_of(wname), "t%d" % len(h))):
                stack.append(h + [st])
    return acc


def plan(tier, seed):
    tasks = []
    for wname, depth in BOUNDS[tier]:
        init = WORLDS[wname]
        tasks.append((wname, [], 0, seed, tier))
        for p in explore.prefixes(init, cfg_of(wname), 1, seed):
            if depth >= 4:
                tasks.append((wname, p, 1, seed, tier))
                m = Model(init, seed=seed)
                m.apply(p[0])
                for st in explore.enabled(m, cfg_of(wname), "t1"):
                    tasks.append((wname, p + [st], depth, seed, tier))
            else:
                tasks.append((wname, p, depth, seed, tier))
    return dict(
        tasks=tasks,
        run=run_task,
        rule="all histories of view / non-view statements up to the depth bound from each base (4 shapes, C and F order) x every permutation of "
        "the terminal's terms (<= 3 live tensors in the quick tier, <= 4 in the thorough tier; rotations and reversals beyond), x terminals leaving one tensor out, x two-epoch runs (first a backward from each "
        "single tensor, then a terminal over everything, both term orders), x each tensor itself as terminal with a C-ordered / F-ordered / broadcast / scalar / default "
        "seed gradient; non-trivial = history in which >= 2 live tensors share memory",
        bounds={w: d for w, d in BOUNDS[tier]},
        assumptions=["the expected view of the base gradient is addressed through integer tag arrays that went through the same NumPy view ops"],
    )


def _fails(init, h, seed, order, first=None):
    names = [i[0] for i in init] + [s[1] for s in h]
    order = [n for n in order if n in names]
    if not order or (first is not None and not first.startswith("direct:") and first not in names):
        return None
    if isinstance(first, str) and first.startswith("direct:"):
        return run_one(init, h, seed, order, **_modes(first))
    return run_one(init, h, seed, order, first)


def replay(case):
    init = [(i[0], tuple(i[1])) + tuple(i[2:]) for i in case["init"]]
    h = [tuplify(s) for s in case["history"]]
    f = _fails(init, h, case.get("seed", 0), list(case["order"]), case.get("first"))
    return [dict(failure=f)] if f is not None else []


def finalize(v):
    import harness.C04 as C04

    case = v["case"]
    init = [(i[0], tuple(i[1])) + tuple(i[2:]) for i in case["init"]]
    seed, order = case.get("seed", 0), list(case["order"])
    h = [tuplify(s) for s in case["history"]]
    first = case.get("first")
    f0 = _fails(init, h, seed, order, first)
    if f0 is None:
        return None
    kind = f0[2]
    hm = ddmin(h, lambda c: (lambda f: f is not None and f[2] == kind)(_fails(init, c, seed, order, first)), init)
    f = _fails(init, hm, seed, order, first)
    names = [i[0] for i in init] + [s[1] for s in hm]
    order = [n for n in order if n in names]
    if isinstance(first, str) and first.startswith("direct:"):
        tail0 = "# terminal: %s.backward(<%s seed gradient>)\n" % (order[0], first.split(":")[1])
    else:
        tail0 = "# first epoch: (w*%s).sum().backward()\n" % first if first is not None else ""
    tail = tail0 + "# L = %s; L.backward()\n# %s: %s %s\n" % (" + ".join("(w*%s).sum()" % n for n in order), f[2], f[3], f[4])
    return dict(
        case=dict(init=init, history=hm, seed=seed, order=order, world=case.get("world"), first=first),
        failure=dict(kind=f[2], where=f[3], detail=f[4]),
        script=script(init, hm, seed, tail),
        signature=C04.signature(hm, f),
        min_history=hm,
    )


MATCHERS = {}
from harness.C04 import presig  # noqa
