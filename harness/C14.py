"""C14 -- seeding backward; shape/dtype of every stored gradient (PROG engine).

All SSA programs (C01's core alphabet) up to n statements x leaf dtypes {f64, f32, f16, mixed} x seeds
{absent, Python scalar, 0-d array, full-shape array, tensor, every broadcastable lower-rank / size-1
shape, and non-broadcastable ones}.  Differential: L.backward() == L.sum().backward();
L.backward(g) == (L*g).sum().backward() on fresh replays; bad seeds raise and write no gradient.
Invariant on every tensor of every execution: grad is None or an ndarray of the tensor's shape and
dtype -- also for one-op programs of every nnet layer, activation and loss."""
import itertools

import numpy as np

from mc import base, explore
from mc.hist import Impl, Model, render, script, tuplify
from harness.C01 import CORE, enabled

PROPERTY = "C14"
LEVEL = "model_checking"

DTYPES = {
    "f64": ("float64", "float64"),
    "f32": ("float32", "float32"),
    "f16": ("float16", "float16"),
    "mixed": ("float32", "float64"),
}
BOUNDS = {"quick": 2, "thorough": 3}
ALPHA = dict(CORE, ops1=("neg", "sum0", "sum", "pos32"), ops2=CORE["ops2"] + ("add32", "sub16"), consts=("s2",))


def init_for(dk):
    a, b = DTYPES[dk]
    return [("a", (2,), 0, False, ("dtype", a)), ("b", (2, 1), 4, False, ("dtype", b))]


def seeds_for(shape):
    """(label, factory(dtype) -> seed object, valid)"""
    out = [("absent", lambda dt: None, True), ("pyscalar", lambda dt: 2.5, True), ("0d", lambda dt: np.array(1.5, dtype=dt), True)]
    n = int(np.prod(shape)) if len(shape) else 1
    full = lambda dt: np.asarray(np.arange(n).reshape(shape) * 0.5 - 0.75).astype(dt)
    out.append(("full", full, True))
    out.append(("full_f64", lambda dt: full("float64"), True))
    out.append(("tensor", lambda dt: __import__("mygrad").tensor(full(dt)), True))
    # seeds of L's exact shape but another dtype, as arrays and as tensors
    for odt in ("float64", "float32", "float16", "int64"):
        out.append(("tensor_" + odt, (lambda odt: lambda dt: __import__("mygrad").tensor(np.asarray(np.arange(n).reshape(shape) + 1).astype(odt)))(odt), True))
        out.append(("array_" + odt, (lambda odt: lambda dt: np.asarray(np.arange(n).reshape(shape) + 1).astype(odt))(odt), True))
    out.append(("list", lambda dt: full("float64").tolist(), True))
    seen = {tuple(shape), ()}
    # every shape that broadcasts *to* `shape` without changing it
    for r in range(1, len(shape) + 1):
        tail = shape[len(shape) - r:]
        for mask in itertools.product((False, True), repeat=r):
            s = tuple(1 if m else d for m, d in zip(mask, tail))
            if s not in seen:
                seen.add(s)
                out.append(("bcast%r" % (s,), (lambda s: lambda dt: (np.arange(int(np.prod(s))).reshape(s) * 0.5 + 0.25).astype(dt))(s), True))
    bad = [tuple(shape) + (2,), (1,) + tuple(shape), (3,) + tuple(shape)[1:] if len(shape) and shape[0] != 3 else (5,)]
    if len(shape) and 1 in shape:
        bad.append(tuple(3 if d == 1 else d for d in shape))  # mutual broadcast: grows L
    if shape == ():
        bad = [(2,), (1,)]
    for s in bad:
        if s not in seen:
            seen.add(s)
            out.append(("bad%r" % (s,), (lambda s: lambda dt: np.ones(s, dtype=dt))(s), False))
    return out


def grads_of(impl):
    return {n: (None if impl.t[n].grad is None else impl.t[n].grad.copy()) for n in impl.order}


def invariant(impl):
    for n in impl.order:
        t = impl.t[n]
        g = t.grad
        if g is None:
            continue
        if type(g) is not np.ndarray or g.shape != t.shape or g.dtype != t.dtype:
            return ("grad_invariant", n, "grad is %s %s %s for a tensor of shape %s dtype %s" % (type(g).__name__, getattr(g, "shape", None), getattr(g, "dtype", None), t.shape, t.dtype))
    return None


def run(init, h, seed_v):
    base.reset_mygrad()
    impl = Impl(init, seed_v)
    for st in h:
        impl.apply(tuple(st))
    return impl


def tol(dt):
    return 64 * float(np.finfo(dt).eps)


def check_program(dk, h, seed_v, acc):
    init = init_for(dk)
    if not h:
        return
    last = h[-1][1]
    try:
        impl = run(init, h, seed_v)
    except Exception as e:
        del e
        acc.outcome("program not executable in this dtype")
        return
    L = impl.t[last]
    shape, dt = L.shape, L.dtype
    impl.t.clear()
    if not np.issubdtype(dt, np.floating):
        return
    for label, mk, valid in seeds_for(shape):
        acc.inc("evaluations")
        A = run(init, h, seed_v)
        g = mk(dt)
        g_snapshot = None if g is None or type(g) is not np.ndarray else g.copy()
        try:
            A.t[last].backward(g) if g is not None else A.t[last].backward()
            errA = None
        except Exception as e:
            errA = base.exc_brief(e)
            del e
        fail = None
        if not valid:
            if errA is None:
                fail = ("bad_seed_accepted", last, "seed of shape %s accepted for L of shape %s" % (np.shape(g), shape))
            else:
                ga = grads_of(A)
                wrote = [n for n, v in ga.items() if v is not None]
                if wrote:
                    fail = ("bad_seed_wrote_grad", wrote[0], "a rejected seed left a gradient behind")
            acc.outcome("bad seed rejected" if fail is None else "fail")
        elif errA is not None:
            fail = ("exception", last, "valid seed %s rejected: %s: %s" % ((label,) + errA))
        else:
            fail = invariant(A)
            if fail is None and g_snapshot is not None and not np.array_equal(g, g_snapshot):
                fail = ("seed_mutated", last, "the caller's seed array was modified by backward")
            if fail is None:
                B = run(init, h, seed_v)
                LB = B.t[last]
                if g is None:
                    (LB.sum() if LB.ndim else LB).backward()
                else:
                    gg = g.data if isinstance(g, __import__("mygrad").Tensor) else np.asarray(g)
                    (LB * np.asarray(gg, dtype=dt)).sum().backward()
                ga, gb = grads_of(A), grads_of(B)
                for n in A.order:
                    x, y = ga[n], gb[n]
                    if (x is None) != (y is None):
                        fail = ("seed_differential", n, "seed %s: grad None-ness differs (backward(g): %s, (L*g).sum().backward(): %s)" % (label, x is None, y is None))
                        break
                    if x is not None and not np.allclose(x.astype(np.float64), y.astype(np.float64), rtol=tol(x.dtype), atol=tol(x.dtype)):
                        fail = ("seed_differential", n, "seed %s: %s vs %s" % (label, explore.fmt(x), explore.fmt(y)))
                        break
                B.t.clear()
            acc.outcome("ok:" + label.split("(")[0])
        A.t.clear()
        if fail is not None:
            acc.violation({"case": {"dtype": dk, "history": h, "seed": seed_v, "gseed": label}, "failure": (len(h), ("backward", last, label)) + fail})
        elif label not in ("absent",):
            acc.nontrivial.add(base.stable_hash((dk, h, label)))


def extra_calls():
    """further one-op programs: ufuncs with where= masks (and out= targets) on 0-d and 1-d operands, reductions to 0-d"""
    import mygrad as mg

    def T(v, dt):
        return mg.tensor(np.asarray(v, dtype=dt))

    ex = {}
    for mk, mask in (("0dTrue", lambda: np.array(True)), ("npTrue", lambda: np.True_), ("pyTrue", lambda: True), ("0dFalse", lambda: np.array(False))):
        ex["exp0d_where_%s_out" % mk] = (lambda mask: lambda dt: (dict(x=T(0.5, dt)), lambda x: mg.exp(x, where=mask(), out=np.zeros((), dtype=x.dtype))))(mask)
        ex["add0d_where_%s_out" % mk] = (lambda mask: lambda dt: (dict(x=T(0.5, dt), y=T(-1.5, dt)), lambda x, y: mg.add(x, y, where=mask(), out=np.zeros((), dtype=np.result_type(x.dtype, y.dtype)))))(mask)
        ex["mul0d_where_%s_outT" % mk] = (lambda mask: lambda dt: (dict(x=T(0.5, dt), y=T(-1.5, dt)), lambda x, y: mg.multiply(x, y, where=mask(), out=mg.tensor(np.asarray(2.0, dtype=np.result_type(x.dtype, y.dtype))))))(mask)
        ex["pos1d_where_%s_out" % mk] = (lambda mask: lambda dt: (dict(x=T([0.5, -1.0], dt)), lambda x: mg.positive(x, where=mask(), out=np.zeros(2, dtype=x.dtype))))(mask)
    ex["sum_to_0d"] = lambda dt: (dict(x=T([0.5, -1.0], dt)), lambda x: x.sum())
    ex["mul_0d_1d"] = lambda dt: (dict(x=T(0.5, dt), y=T([1.0, 2.0], dt)), lambda x, y: x * y)
    return ex


def nnet_cells(acc):
    from specs import nnet_calls as nc

    cat = dict(nc.catalogue())
    cat.update(extra_calls())
    for name in list(nc.NAMES) + sorted(extra_calls()):
        for dt in ("float64", "float32", "first32", "rest32"):
            for seedkind in ("absent", "full"):
                base.reset_mygrad()
                import mygrad as mg

                if dt in ("first32", "rest32"):
                    # mixed precision: one operand (or all the others) in float32, the rest in float64
                    ins, call = cat[name]("float64")
                    keys = list(ins)
                    if len(keys) < 2:
                        continue
                    for j, k in enumerate(keys):
                        if (j == 0) == (dt == "first32"):
                            ins[k] = mg.tensor(ins[k].data.astype("float32"))
                else:
                    ins, call = cat[name](dt)
                try:
                    out = call(**ins)
                except Exception as e:
                    del e
                    acc.outcome("nnet call rejects this dtype mix")
                    continue
                acc.inc("evaluations")
                acc.inc("nnet_cells")
                g = None
                if seedkind == "full":
                    g = (np.arange(out.size).reshape(out.shape) * 0.25 + 0.5).astype(out.dtype)
                    keep = g.copy()
                try:
                    out.backward(g) if g is not None else out.backward()
                except Exception as e:
                    eb = base.exc_brief(e)
                    del e
                    acc.violation({"case": {"nnet": name, "dtype": dt, "gseed": seedkind}, "failure": (0, ("nnet", name, dt), "exception", name, "%s: %s" % eb)})
                    continue
                fail = None
                for k, t in list(ins.items()) + [("<output>", out)]:
                    gg = t.grad
                    if gg is not None and (type(gg) is not np.ndarray or gg.shape != t.shape or gg.dtype != t.dtype):
                        fail = ("grad_invariant", k, "%s: grad %s %s for tensor %s %s" % (name, gg.shape, gg.dtype, t.shape, t.dtype))
                        break
                if fail is None and g is not None and not np.array_equal(g, keep):
                    fail = ("seed_mutated", name, "the caller's seed array was modified by backward")
                if fail is not None:
                    acc.violation({"case": {"nnet": name, "dtype": dt, "gseed": seedkind}, "failure": (0, ("nnet", name, dt)) + fail})
                    acc.outcome("fail:" + fail[0])
                else:
                    acc.outcome("ok:nnet")
                    acc.nontrivial.add(base.stable_hash((name, dt, seedkind)))


def run_task(task):
    kind = task[0]
    acc = base.Acc()
    if kind == "nnet":
        nnet_cells(acc)
        return acc
    _, dk, prefix, depth, seed_v = task
    init = init_for(dk)
    stack = [list(prefix)]
    while stack:
        h = stack.pop()
        m = Model(init, seed=seed_v)
        for st in h:
            m.apply(tuple(st))
        check_program(dk, h, seed_v, acc)
        acc.inc("traces")
        acc.inc("transitions", 1 if h else 0)
        acc.states.add(hash((dk, m.digest())))
        if len(acc.samples) < 1 and len(h) == depth:
            acc.samples.append("[%s] " % dk + "; ".join(render(s) for s in h) + "; L.backward(<each seed>) vs (L*g).sum().backward()")
        if len(h) < depth:
            for st in reversed(enabled(m, ALPHA, "v%d" % len(h))):
                stack.append(h + [st])
    return acc


def plan(tier, seed):
    depth = BOUNDS[tier]
    tasks = [("nnet",)]
    for dk in DTYPES:
        init = init_for(dk)
        m = Model(init, seed=seed)
        for st in enabled(m, ALPHA, "v0"):
            tasks.append(("prog", dk, [st], depth, seed))
    return dict(
        tasks=tasks,
        run=run_task,
        rule="all SSA programs up to n statements over {add, sub, mul, neg, sum(axis=0,keepdims), sum(), [::-1]} x 4 leaf-dtype assignments x every seed "
        "kind for the terminal's shape; plus one-op programs of every nnet layer/activation/loss x {f64, f32} x {no seed, full seed}; non-trivial = "
        "distinct (dtype, program, seed) with a seed given",
        bounds={"max_statements": depth, "dtypes": list(DTYPES)},
        assumptions=["differential oracle between backward(g) and (L*g).sum().backward(), tolerance 64 eps of the gradient's dtype"],
    )


def _one(case):
    acc = base.Acc()
    if "nnet" in case:
        nnet_cells(acc)
        return [v for v in acc.violations if v["case"]["nnet"] == case["nnet"] and v["case"]["dtype"] == case["dtype"] and v["case"]["gseed"] == case["gseed"]]
    h = [tuplify(s) for s in case["history"]]
    check_program(case["dtype"], h, case.get("seed", 0), acc)
    return [v for v in acc.violations if v["case"]["gseed"] == case["gseed"]]


def replay(case):
    return [dict(failure=v["failure"]) for v in _one(case)]


def finalize(v):
    r = _one(v["case"])
    if not r:
        return None
    f = r[0]["failure"]
    case = v["case"]
    if "nnet" in case:
        return dict(case=case, failure=dict(kind=f[2], where=f[3], detail=f[4]), script="# nnet one-op program %s dtype %s seed %s\n# %s\n" % (case["nnet"], case["dtype"], case["gseed"], f[4]),
                    signature=base.stable_hash((case["nnet"].split("_")[0], f[2])))
    h = [tuplify(s) for s in case["history"]]
    return dict(case=case, failure=dict(kind=f[2], where=f[3], detail=f[4]),
                script=script(init_for(case["dtype"]), h, case.get("seed", 0), "# L = %s; seed kind %s\n# %s: %s\n" % (h[-1][1], case["gseed"], f[2], f[4])),
                signature=base.stable_hash((tuple(s[0] for s in h), case["gseed"].split("(")[0], f[2])))


def m_gru_hidden_grad_shape(v):
    """F-C14: GRUnit.backward stores the (T, N, D) gradient of the hidden states on the (T+1, N, D) output
    (the repo's own gru test compares s.grad with that (T, N, D) array, so the shape is pinned there)."""
    c = v.get("case") or {}
    f = v.get("failure") or {}
    return str(c.get("nnet", "")).startswith("gru") and f.get("kind") == "grad_invariant" and f.get("where") == "<output>"


MATCHERS = {"gru_hidden_grad_shape": m_gru_hidden_grad_shape}
