"""C12 -- operations never modify their inputs, and gradients are never aliased (CONF + PROG engines).

(a) every case of the op catalogue and of the nnet catalogue: byte snapshots of every caller-owned object
    (operand arrays and tensor data, index objects, where-masks, the seed passed to backward) before and after
    the forward call and after backward(seed);
(b) every SSA program up to n statements (C01's alphabets): backward() leaves every tensor's data unchanged;
in both: over all pairs of tensors with gradients, shares_memory(grad_i, grad_j) implies
shares_memory(data_i, data_j); no gradient shares memory with any tensor's data or with the caller's seed
(other than the terminal's own gradient); a sentinel written through each .grad changes another gradient only
if the two tensors share memory and never changes any data."""
import numpy as np

from mc import base, conf, explore
from mc.hist import Impl, Model, render, script, tuplify
from specs import nnet_calls, ops
import harness.C01 as C01

PROPERTY = "C12"
LEVEL = "exploration"
BOUNDS = {"quick": [("core", 2), ("mat", 2)], "thorough": [("core", 3), ("full", 2), ("mat", 2)]}


def cells(tier):
    for i, case in enumerate(ops.all_cases(tier)):
        yield ("op", i, case["name"])
    for name in nnet_calls.NAMES:
        for dt in ("float64", "float32"):
            yield ("nnet", name, dt)
    for how in ("copy", "copy.copy", "astype", "astype_other", "tensor", "Tensor", "astensor_other_dtype", "astensor_const", "copy_const"):
        for src in ("leaf", "terminal", "view"):
            yield ("conv", how, src)
    # several independent graphs in one process: their terminals' (and leaves') gradients must not be aliased with each other
    for shape in ((), (1,), (3,), (2, 2)):
        for dt in ("float64", "float32", "float16"):
            for seedk in ("default", "pyscalar", "array", "same_array"):
                for form in ("sum", "elementwise", "leaf"):
                    yield ("multi", shape, dt, seedk, form)
    for aname, depth in BOUNDS[tier]:
        for h in programs(aname, depth):
            yield ("prog", aname, h)


def programs(aname, depth):
    init = C01.INITS[aname]
    cfg = C01.ALPH[aname]
    stack = [()]
    while stack:
        h = stack.pop()
        if h:
            yield h
        if len(h) < depth:
            m = Model(init, seed=0)
            for st in h:
                m.apply(st)
            for st in reversed(C01.enabled(m, cfg, "v%d" % len(h))):
                stack.append(h + (st,))


def snap(x):
    import mygrad as mg

    if isinstance(x, mg.Tensor):
        return ("T", x.data.tobytes(), x.data.shape)
    if isinstance(x, np.ndarray):
        return ("A", x.tobytes(), x.shape)
    if isinstance(x, (list, tuple)):
        return (type(x).__name__,) + tuple(snap(i) for i in x)
    if isinstance(x, slice):
        return ("slice", x.start, x.stop, x.step)
    return ("S", repr(x))


def alias_oracle(tensors, seed_arr, terminal):
    """tensors: list of (label, Tensor).  -> None | (kind, detail)"""
    withg = [(n, t) for n, t in tensors if t.grad is not None]
    for i, (na, a) in enumerate(withg):
        for nb, b in withg[i + 1:]:
            if a.grad.size and b.grad.size and np.shares_memory(a.grad, b.grad) and not np.shares_memory(a.data, b.data):
                return ("grads_aliased", "%s.grad and %s.grad share memory although the tensors do not" % (na, nb))
        for nb, b in tensors:
            if a.grad.size and b.data.size and np.shares_memory(a.grad, b.data):
                return ("grad_aliases_data", "%s.grad shares memory with %s.data" % (na, nb))
        if seed_arr is not None and a is not terminal and a.grad.size and np.shares_memory(a.grad, seed_arr):
            return ("grad_aliases_seed", "%s.grad shares memory with the array passed to backward()" % na)
    # sentinel writes
    datas = [t.data.copy() for _, t in tensors]
    for na, a in withg:
        if not a.grad.size or not a.grad.flags.writeable:
            continue
        before = [(None if t.grad is None else t.grad.copy()) for _, t in tensors]
        own = a.grad.copy()
        a.grad[...] += 1024.0
        for (nb, b), old in zip(tensors, before):
            if b is a or old is None:
                continue
            if not np.array_equal(b.grad, old) and not np.shares_memory(a.data, b.data):
                return ("grad_edit_leaks", "editing %s.grad in place changed %s.grad although the tensors do not share memory" % (na, nb))
        for (nb, b), d in zip(tensors, datas):
            if not np.array_equal(b.data, d, equal_nan=True):
                return ("grad_edit_changes_data", "editing %s.grad in place changed %s.data" % (na, nb))
        a.grad[...] = own  # (exact restore: +-1024 is lossy in float16)
    return None


_CASES = []
_NN = {}


def check_op(i, name):
    import mygrad as mg

    if not _CASES:
        _CASES.extend(ops.all_cases("quick"))
    case = _CASES[i]
    if case["name"] != name:
        return ("harness", "case enumeration is not deterministic")
    if case["op"] in ("getitem", "setitem"):
        # index objects are caller-owned inputs: every execution gets fresh ones (a defect that modifies an index
        # object in place must not poison later executions of the same cell)
        case = [c for c in ops.index_cases("quick") if c["name"] == name][0]
    kinds = case.get("kinds") or ("t",) * len(case["operands"])
    args = []
    for a, k in zip(case["operands"], kinds):
        a = np.array(a, copy=True, order="K")
        args.append(mg.tensor(a) if k == "t" else (a if k == "a" else float(a)))
    extras = [case.get("index"), case.get("mask")]
    before = [snap(x) for x in args + extras]
    try:
        out = case["mg"](*args)
    except Exception as e:
        del e
        return ("skip", "the forward call raised (reported by C02)")
    if [snap(x) for x in args + extras] != before:
        return ("forward_modified_input", "an operand, index object or mask was modified by the forward call")
    if not isinstance(out, mg.Tensor):
        return None
    g = ops.gtable(out.shape).astype(out.dtype)
    gkeep = g.copy()
    out_before = out.data.copy()
    out.backward(g)
    if not np.array_equal(g, gkeep):
        return ("seed_modified", "the array passed to backward() was modified")
    if [snap(x) for x in args + extras] != before or not np.array_equal(out.data, out_before, equal_nan=True):
        return ("backward_modified_data", "backward() changed a tensor's data, an index object or a mask")
    tensors = [("operand%d" % j, a) for j, a in enumerate(args) if isinstance(a, mg.Tensor)] + [("output", out)]
    return alias_oracle(tensors, g, out)


def check_nnet(name, dt):
    if not _NN:
        _NN["cat"] = nnet_calls.catalogue()
    ins, call = _NN["cat"][name](dt)
    before = [snap(t) for t in ins.values()]
    out = call(**ins)
    if [snap(t) for t in ins.values()] != before:
        return ("forward_modified_input", "%s modified an input" % name)
    g = ops.gtable(out.shape).astype(out.dtype)
    gkeep = g.copy()
    ob = out.data.copy()
    out.backward(g)
    if not np.array_equal(g, gkeep):
        return ("seed_modified", "%s: the array passed to backward() was modified" % name)
    if [snap(t) for t in ins.values()] != before or not np.array_equal(out.data, ob):
        return ("backward_modified_data", "%s: backward() changed a tensor's data" % name)
    return alias_oracle(list(ins.items()) + [("output", out)], g, out)


def check_prog(aname, h):
    init = C01.INITS[aname]
    base.reset_mygrad()
    impl = Impl(init, 0)
    for st in h:
        impl.apply(tuple(st))
    last = h[-1][1]
    L = impl.t[last]
    datas = {n: impl.t[n].data.copy() for n in impl.order}
    for variant in ("seeded",):
        g = ops.gtable(L.shape)
        gk = g.copy()
        try:
            L.backward(g)
        except Exception as e:
            eb = base.exc_brief(e)
            del e
            return ("exception", "backward raised %s: %s" % eb)
        if not np.array_equal(g, gk):
            return ("seed_modified", "the array passed to backward() was modified")
        for n in impl.order:
            if not np.array_equal(impl.t[n].data, datas[n], equal_nan=True):
                return ("backward_modified_data", "backward() changed %s.data" % n)
        f = alias_oracle([(n, impl.t[n]) for n in impl.order], g, L)
        if f is not None:
            return f
    return None


def check_conv(how, src):
    """conversions of a tensor that already holds a gradient: the result shares neither data nor gradient with it"""
    import copy as _copy

    import mygrad as mg

    x = mg.tensor(np.array([0.5, -1.25, 2.0, 0.75]))
    v = x[1:]
    out = (v * np.array([1.5, -2.0, 0.5])).sum() * 1.0 if src != "terminal" else None
    seed = None
    if src == "terminal":
        y = x * 3.0
        seed = np.array([0.25, 0.5, -1.0, 2.0])
        y.backward(seed)
        t = y
    else:
        out.backward()
        t = x if src == "leaf" else v
    gkeep = None if seed is None else seed.copy()
    f = {"copy": lambda: t.copy(), "copy.copy": lambda: _copy.copy(t), "astype": lambda: t.astype(t.dtype), "astype_other": lambda: t.astype("float32"),
         "tensor": lambda: mg.tensor(t), "Tensor": lambda: mg.Tensor(t), "astensor_other_dtype": lambda: mg.astensor(t, dtype="float32"),
         "astensor_const": lambda: mg.astensor(t, constant=True), "copy_const": lambda: t.copy(constant=True)}[how]
    c = f()
    if c is t:
        return ("identity", "%s returned the tensor itself" % how)
    tensors = [("x", x), ("v", v), ("t", t), ("converted", c)]
    tensors = [(n, a) for i, (n, a) in enumerate(tensors) if all(a is not b for _, b in tensors[:i])]
    if how != "astensor_const" and np.shares_memory(c.data, t.data):
        return ("aliasing", "%s shares data with its source" % how)
    r = alias_oracle(tensors, seed, t if seed is not None else None)
    if r is None and seed is not None and not np.array_equal(seed, gkeep):
        r = ("seed_modified", "the caller's seed changed while probing gradients")
    return r


def check_multi(shape, dt, seedk, form):
    """three independent programs of the same shape/dtype in one process; terminal kinds: 0-d reduction of a leaf of `shape`,
    elementwise result of `shape`, or the leaf itself"""
    import mygrad as mg

    shared_seed = ops.gtable(shape).astype(dt) if form != "sum" else np.array(1.5, dtype=dt)

    def build(k):
        x = mg.tensor((ops.vals(shape, 3 * k + 1)).astype(dt))
        L = (x * 2.0).sum() if form == "sum" else (x * 2.0 if form == "elementwise" else x)
        return x, L

    def seed_for(L, k):
        if seedk == "default":
            return None
        if seedk == "pyscalar":
            return 1.0
        if seedk == "same_array":
            return shared_seed  # the caller passes one array to several backward calls
        return (ops.gtable(L.shape, k) if L.ndim else np.array(1.5)).astype(dt)

    (x1, L1), (x2, L2) = build(0), build(1)
    s1, s2 = seed_for(L1, 0), seed_for(L2, 1)
    keep = None if not isinstance(s1, np.ndarray) else s1.copy()
    L1.backward(s1)
    L2.backward(s2)
    tensors = [("x1", x1), ("L1", L1), ("x2", x2), ("L2", L2)]
    tensors = [(n, a) for i, (n, a) in enumerate(tensors) if all(a is not b for _, b in tensors[:i])]
    # (a terminal's own .grad may be the caller's seed array; with one seed array passed twice the two terminals then
    # legitimately expose the same caller array: only the leaves are compared in that variant)
    if seedk == "same_array":
        tensors = [(n, a) for n, a in tensors if n.startswith("x")] if form != "leaf" else []
    r = alias_oracle(tensors, None, None)
    if r is not None:
        return r
    if keep is not None and not np.array_equal(s1, keep):
        return ("seed_modified", "the array passed to backward() was modified")
    # editing a gradient of the first programs in place must not influence a later, independent program
    ref = None if x1.grad is None else x1.grad.copy()
    for n, t in (("L1", L1), ("x1", x1), ("L2", L2)):
        if t.grad is not None and t.grad.flags.writeable and t.grad.size and not (seedk == "same_array"):
            t.grad[...] = -77.0
    x3, L3 = build(0)
    L3.backward(seed_for(L3, 0) if seedk != "same_array" else ops.gtable(shape).astype(dt) if form != "sum" else np.array(1.5, dtype=dt))
    if ref is not None and not np.array_equal(x3.grad, ref):
        return ("grad_edit_leaks", "a later independent program computes %s instead of %s after gradients of earlier programs were edited in place" % (x3.grad, ref))
    return None


def check(cell):
    if cell[0] == "multi":
        return check_multi(tuple(cell[1]), cell[2], cell[3], cell[4])
    if cell[0] == "conv":
        return check_conv(cell[1], cell[2])
    if cell[0] == "op":
        return check_op(cell[1], cell[2])
    if cell[0] == "nnet":
        return check_nnet(cell[1], cell[2])
    return check_prog(cell[1], cell[2])


def affinity(cell):
    return 0 if cell[0] == "nnet" and cell[1].startswith("gru") else None


def nontrivial(cell):
    return True


def outcome(cell):
    return "ok:" + cell[0]


def signature(cell, f):
    return base.stable_hash((cell[0], str(cell[2] if cell[0] == "op" else cell[1]).split("(")[0].split(" ")[0], f[0]))


def script(cell, f):
    if cell[0] == "prog":
        h = [tuple(s) for s in cell[2]]
        return script_prog(cell[1], h, f)
    return "# C12 cell %r\n# %s: %s\n" % (cell, f[0], f[1])


def script_prog(aname, h, f):
    from mc.hist import script as sc

    return sc(C01.INITS[aname], h, 0, "%s.backward(g)  # g: a generic array of L's shape\n# %s: %s\n" % (h[-1][1], f[0], f[1]))


def plan(tier, seed):
    me = __import__("harness.C12", fromlist=["x"])
    return conf.make_plan(
        me, tier, seed, nchunks=64,
        rule="every case of the op catalogue and of the nnet catalogue, and every SSA program up to n statements of C01's alphabets; each cell distinct",
        bounds={a: d for a, d in BOUNDS[tier]},
        assumptions=["the terminal's own .grad may be the caller's seed array (documented: the seed is not copied when dtype and shape match)"],
    )


def replay(case):
    return conf.replay_cell(__import__("harness.C12", fromlist=["x"]), case)


def finalize(v):
    return conf.finalize_cell(__import__("harness.C12", fromlist=["x"]), v)


MATCHERS = {}
