"""C03 -- forward results agree with NumPy in value, shape and dtype (CONF engine).

Cells: (U) every registered unary ufunc x operand dtype {bool,int8,int32,int64,f16,f32,f64} x shape x layout x dtype=
x out=ndarray; (B) every registered binary ufunc x dtype pairs x Python-scalar operands on either side x broadcast
shapes x dtype=/where=; (O) operators (incl. reflected, with Python scalars and arrays, comparisons, // and %);
(R) reductions and cumulative ops x dtype x axis x keepdims x dtype=/ddof; (M) the shape-manipulation / joining /
indexing calls of the op catalogue x dtype.  Oracle: the same call on the underlying arrays in NumPy: identical
values (NaN-aware, bitwise), shape and dtype; calls NumPy rejects must be rejected; identical with tracking off."""
import itertools
import operator
import warnings

import numpy as np

from mc import base, conf
from specs import ops as catalogue

PROPERTY = "C03"
LEVEL = "exploration"

DTYPES = ["bool", "int8", "int32", "int64", "float16", "float32", "float64"]
PYSCALARS = {"pybool": True, "pyint": 3, "pyfloat": 2.5, "pyint_neg": -2, "pyint1": 1, "pyfloat1": 1.0, "pyint2": 2, "pyfloat2": 2.0, "pyfloat_nr": 1.1}
# exponents for which Tensor.__pow__ has shortcuts, in every container NumPy distinguishes
EXPONENTS = {"py2": 2, "py2.0": 2.0, "py1": 1, "py1.0": 1.0, "pyTrue": True, "nd0d_2.0": np.array(2.0), "nd0d_2": np.array(2), "nd(1,)_2.0": np.array([2.0]),
             "nd(1,1)_2.0": np.array([[2.0]]), "nd(1,)_1": np.array([1]), "npf32_2": np.float32(2), "npi8_2": np.int8(2), "nd(3,)_2": np.array([2.0, 2.0, 2.0]), "py3": 3, "py0.5": 0.5}
SHAPES = [(), (3,), (2, 3), (0,)]


def arr(shape, dt, off=0):
    n = int(np.prod(shape))
    base_vals = np.array([((i * 7 + off) % 9) - 3 + 0.5 * ((i + off) % 2) for i in range(n)]).reshape(shape)
    if dt == "bool":
        return (base_vals > 0)
    if dt.startswith("int"):
        return base_vals.astype(dt)
    return (base_vals * 0.75).astype(dt)


def strided(a):
    if a.ndim == 0:
        return a
    big = np.zeros(tuple(2 * s for s in a.shape), dtype=a.dtype)
    sl = tuple(slice(None, None, 2) for _ in a.shape)
    big[sl] = a
    return big[sl]


def cells(tier):
    import mygrad.tensor_base as tb

    un = sorted(u.__name__ for u in tb._REGISTERED_UFUNC if u.nin == 1)
    bi = sorted(u.__name__ for u in tb._REGISTERED_UFUNC if u.nin == 2)
    for u in un:
        for dt in DTYPES:
            for shape in SHAPES:
                for lay in ("C", "S"):
                    if lay == "S" and shape in ((), (0,)):
                        continue
                    for kw in (None, "dtype=float32", "dtype=float64", "out", "where", "where+dtype=float64", "where+dtype=float32+noout"):
                        yield ("U", u, dt, shape, lay, kw)
    pairs = [((3,), (3,)), ((2, 3), (3,)), ((), ()), ((3,), ()), ((0,), ())]
    for b in bi:
        for d1 in DTYPES + list(PYSCALARS):
            for d2 in DTYPES + list(PYSCALARS):
                if d1 in PYSCALARS and d2 in PYSCALARS:
                    continue
                for s1, s2 in pairs:
                    if (d1 in PYSCALARS and s1 != ()) or (d2 in PYSCALARS and s2 != ()):
                        continue
                    if b == "matmul" and (s1 == () or s2 == () or d1 in PYSCALARS or d2 in PYSCALARS):
                        continue
                    for kw in (None, "dtype=float32", "where", "where+dtype=float64", "where+dtype=float32+noout", "out+dtype=float64"):
                        if kw != "dtype=float32" and kw is not None and b == "matmul":
                            continue
                        yield ("B", b, d1, d2, s1, s2, kw)
    # (`%` and abs() are not defined for Tensor: no MyGrad operator, hence no claim)
    OPS = ["add", "sub", "mul", "truediv", "pow", "matmul", "floordiv", "lt", "le", "gt", "ge", "eq", "ne"]
    for o in OPS:
        for d1 in DTYPES:
            for other in DTYPES + list(PYSCALARS):
                for refl in (False, True):
                    for side in ("tensor", "array"):
                        if other in PYSCALARS and side == "array":
                            continue
                        yield ("O", o, d1, other, refl, side)
    for o in ("neg", "pos"):
        for d1 in DTYPES:
            yield ("O1", o, d1)
    for d1 in DTYPES:
        for shape in ((), (3,), (2, 0)):
            for e in EXPONENTS:
                for form in ("**", "mg.power", "**="):
                    if form == "**=" and (d1 == "bool" or np.ndim(EXPONENTS[e]) > 0 or shape == ()):
                        continue  # (in-place power of booleans / with an exponent that does not fit the target: NumPy raises in version-specific ways)
                    yield ("P", d1, shape, e, form)
    # two calls in one process: equal-valued Python scalars of different types must not influence each other
    for b in ("add", "multiply", "power", "maximum"):
        for d1 in DTYPES:
            for ka, kb in (("pyint2", "pyfloat2"), ("pyfloat2", "pyint2"), ("pyint1", "pyfloat1"), ("pyfloat1", "pybool"), ("pybool", "pyint1"), ("pyint1", "pybool")):
                yield ("SEQ", b, d1, ka, kb)
    for fn in ("stack", "concatenate", "where", "add_sequence"):
        for kinds in (("pyfloat", "npf32"), ("npf32", "pyfloat"), ("pyint", "f32arr"), ("f32arr", "pyfloat"), ("i8arr", "pyint"), ("pyfloat", "pyint")):
            yield ("SQ", fn, kinds)
    # Python scalars that are not representable in the tensor's dtype, equal (after rounding to that dtype) to one of its elements:
    # NEP 50 compares / combines in the array's dtype; the non-differentiable ufuncs and the comparison operators go through other code than _op
    for fn in ("equal", "not_equal", "less", "less_equal", "greater", "greater_equal", "logical_and", "logical_or", "logical_xor",
               "floor_divide", "remainder", "fmod", "isclose", "allclose"):
        for dt in ("float32", "float16", "float64", "int8"):
            for sc in ("0.1", "1.1", "3", "True", "300"):
                for form in ("np", "mg", "operator", "reflected"):
                    yield ("W", fn, dt, sc, form)
    # in-place forms on tensors of every layout, directly and through views (the written memory must end up like NumPy's)
    for form in ("imul", "iadd_arr", "set_all", "set_idx", "mg_out", "np_out", "masked_out"):
        for lay in ("C", "F", "Tview"):
            for vk in ("none", "T.reshape(-1)", "reshape(-1)", "rev", "col", "T", "ravel"):
                yield ("IP", form, lay, vk)
    # out= of the non-ufunc functions that accept it
    for fn in ("einsum_ij,jk->ik", "einsum_ij->j", "einsum_i,i->", "clip"):
        for tgt in ("ndarray", "tensor", "tensor_view", "ndarray_view"):
            yield ("OUT", fn, tgt)
    RED = ["sum", "mean", "prod", "var", "std", "max", "min", "cumsum", "cumprod", "any", "argmax", "argmin"]
    for r in RED:
        for dt in DTYPES:
            for shape in ((3,), (2, 3), ()):
                for axis in [None, 0, -1] + ([(0, 1), ()] if len(shape) == 2 else []):
                    if len(shape) == 0 and axis not in (None,):
                        continue
                    for kd in (False, True):
                        for kw in (None, "dtype=float32", "dtype=float64", "ddof=1"):
                            if kw == "ddof=1" and r not in ("var", "std"):
                                continue
                            if r in ("any", "argmax", "argmin", "max", "min") and kw is not None:
                                continue
                            if r in ("cumsum", "cumprod") and (kd or isinstance(axis, tuple)):
                                continue
                            if r in ("argmax", "argmin") and isinstance(axis, tuple):
                                continue
                            for form in ("func", "method"):
                                yield ("R", r, dt, shape, axis, kd, kw, form)
    n = sum(1 for _ in catalogue.manip_cases(tier))
    for i in range(n):
        for dt in ("float32", "int64", "float16"):
            yield ("M", i, dt)
    n2 = sum(1 for _ in catalogue.index_cases(tier))
    for i in range(n2):
        for dt in ("float32", "int64", "bool"):
            yield ("I", i, dt)
    n3 = sum(1 for _ in catalogue.linalg_cases(tier))
    for i in range(n3):
        for dt in ("float32", "int64", "bool"):
            yield ("L", i, dt)
    # float16 reductions over many elements (NumPy accumulates pairwise / in a wider type; a naive float16 running sum overflows or stalls)
    for r in ("sum", "mean", "var", "std", "prod", "cumsum", "max"):
        for which in ("1000x100", "4096x0.1", "2x600x55"):
            for form in ("func", "method", "np"):
                yield ("R16", r, which, form)


_CAT = {}


def cat(kind):
    if kind not in _CAT:
        _CAT[kind] = list({"M": catalogue.manip_cases, "I": catalogue.index_cases, "L": catalogue.linalg_cases}[kind]("quick"))
    return _CAT[kind]


def call(f):
    """-> ('ok', value) | ('err', type name)"""
    with warnings.catch_warnings():
        warnings.simplefilter("ignore")
        with np.errstate(all="ignore"):
            try:
                return ("ok", f())
            except Exception as e:
                r = ("err", type(e).__name__, str(e)[:100])
                del e
                return r


def same(m, n):
    import mygrad as mg

    if isinstance(m, tuple) and isinstance(n, tuple):
        return len(m) == len(n) and all(same(a, b) is None for a, b in zip(m, n)) or None if all(same(a, b) is None for a, b in zip(m, n)) else ("value", "tuple results differ")
    md = m.data if isinstance(m, mg.Tensor) else m
    md, nd = np.asarray(md), np.asarray(n)
    if md.shape != nd.shape:
        return ("shape", "mygrad %s, numpy %s" % (md.shape, nd.shape))
    if md.dtype != nd.dtype:
        return ("dtype", "mygrad %s, numpy %s" % (md.dtype, nd.dtype))
    if not np.array_equal(md, nd, equal_nan=md.dtype.kind in "fc"):
        return ("value", "mygrad %s, numpy %s" % (np.array2string(md, precision=8), np.array2string(nd, precision=8)))
    return None


def compare(f_mg, f_np, f_mg_again=None):
    """run the NumPy call, the MyGrad call with tracking on, and (fresh operands) with tracking off"""
    import mygrad as mg

    rn = call(f_np)
    rm = call(f_mg)
    if rn[0] == "err":
        if rm[0] == "ok":
            return ("not_rejected", "numpy raises %s (%s) but mygrad returned a result" % (rn[1], rn[2]))
        return None
    if rm[0] == "err":
        return ("exception", "numpy accepts the call, mygrad raised %s: %s" % (rm[1], rm[2]))
    d = same(rm[1], rn[1])
    if d is not None:
        return d
    if f_mg_again is not None:
        with mg.no_autodiff:
            ru = call(f_mg_again)
        if ru[0] == "err":
            return ("untracked_exception", "with tracking off: %s: %s" % (ru[1], ru[2]))
        d = same(ru[1], rn[1])
        if d is not None:
            return ("untracked_" + d[0], "with tracking off: " + d[1])
    return None


def masked_call(npf, mgf, xs, kw):
    """ufunc call with where= (and optionally dtype=, with or without out=): with out=, the whole target must agree; without,
    the dtype, the shape and the selected entries (NumPy leaves the others uninitialised)"""
    parts = kw.split("+")
    kwargs = {}
    for p_ in parts:
        if p_.startswith("dtype="):
            kwargs["dtype"] = p_.split("=")[1]
    shp = np.broadcast_shapes(*[np.shape(x) for x in xs])
    m = (np.arange(int(np.prod(shp))).reshape(shp) % 2 == 0)
    if "where" in parts:
        kwargs["where"] = m
    res = call(lambda: npf(*xs, **{k: v for k, v in kwargs.items() if k != "where"}))
    if res[0] == "err":
        return compare(lambda: mgf(*[T(x) for x in xs], **kwargs), lambda: npf(*xs, **kwargs), None)
    if "noout" in parts:
        rn = call(lambda: npf(*xs, **kwargs))
        for tracked in (True, False):
            import mygrad as mg

            if tracked:
                rm = call(lambda: mgf(*[T(x) for x in xs], **kwargs))
            else:
                with mg.no_autodiff:
                    rm = call(lambda: mgf(*[T(x) for x in xs], **kwargs))
            pre = "" if tracked else "untracked_"
            if rn[0] == "err":
                if rm[0] == "ok":
                    return (pre + "not_rejected", "numpy raises %s but mygrad returned a result" % rn[1])
                continue
            if rm[0] == "err":
                return (pre + "exception", "numpy accepts the call, mygrad raised %s: %s" % (rm[1], rm[2]))
            md, nd = np.asarray(rm[1].data if hasattr(rm[1], "data") and not isinstance(rm[1], np.ndarray) else rm[1]), np.asarray(rn[1])
            if md.shape != nd.shape:
                return (pre + "shape", "mygrad %s, numpy %s" % (md.shape, nd.shape))
            if md.dtype != nd.dtype:
                return (pre + "dtype", "mygrad %s, numpy %s" % (md.dtype, nd.dtype))
            if not np.array_equal(md[m], nd[m], equal_nan=md.dtype.kind in "fc"):
                return (pre + "value", "selected entries: mygrad %s, numpy %s" % (md[m], nd[m]))
        return None
    o1, o2, o3 = (np.full(np.shape(res[1]), 7, dtype=np.asarray(res[1]).dtype) for _ in range(3))
    r = compare(lambda: mgf(*[T(x) for x in xs], out=o1, **kwargs), lambda: npf(*xs, out=o2, **kwargs), lambda: mgf(*[T(x) for x in xs], out=o3, **kwargs))
    if r is None and not (np.array_equal(o1, o2, equal_nan=o1.dtype.kind in "fc") and np.array_equal(o3, o2, equal_nan=o1.dtype.kind in "fc")):
        return ("out_value", "out= target holds different values")
    return r


def operand(d, shape, off=0):
    return PYSCALARS[d] if d in PYSCALARS else arr(shape, d, off)


def T(x):
    import mygrad as mg

    return mg.tensor(x) if isinstance(x, np.ndarray) else x


def check(cell):
    import mygrad as mg

    kind = cell[0]
    if kind in ("P", "O") and cell[1 if kind == "P" else 2] == "bool" and (cell[3] in ("py2", "pyint2")) and (kind == "P" and cell[4] == "**" or kind == "O" and cell[1] == "pow"):
        # NumPy's own `bool_array ** 2` (square fast path: int8) disagrees with numpy.power(bool_array, 2) (int64)
        return ("skip", "NumPy's operator and function disagree with each other here")
    if kind == "U":
        _, u, dt, shape, lay, kw = cell
        x = arr(shape, dt, 1)
        if lay == "S":
            x = strided(x)
        npf, mgf = getattr(np, u), getattr(mg, u)
        kwargs = {}
        if kw and kw.startswith("dtype="):
            kwargs["dtype"] = kw.split("=")[1]
        if kw and "where" in kw:
            return masked_call(npf, mgf, (x,), kw)
        if kw == "out":
            res = call(lambda: npf(x))
            if res[0] == "err":
                return ("skip", "numpy rejects")
            o1, o2, o3 = np.zeros_like(res[1]), np.zeros_like(res[1]), np.zeros_like(res[1])
            r = compare(lambda: mgf(T(x), out=o1), lambda: npf(x, out=o2), lambda: mgf(T(x), out=o3))
            if r is None and not np.array_equal(o1, o2, equal_nan=o1.dtype.kind == "f"):
                return ("out_value", "out= target holds different values")
            return r
        return compare(lambda: mgf(T(x), **kwargs), lambda: npf(x, **kwargs), lambda: mgf(T(x), **kwargs))
    if kind == "B":
        _, b, d1, d2, s1, s2, kw = cell
        if b == "matmul":
            s1, s2 = {((3,), (3,)): ((3,), (3,)), ((2, 3), (3,)): ((2, 3), (3,))}.get((s1, s2), (None, None))
            if s1 is None:
                return ("skip", "shape pair not for matmul")
        x, y = operand(d1, s1, 1), operand(d2, s2, 5)
        npf, mgf = getattr(np, b), getattr(mg, b)
        kwargs = {}
        if kw and kw.startswith("dtype="):
            kwargs["dtype"] = kw.split("=")[1]
        if kw and ("where" in kw or kw.startswith("out+")):
            return masked_call(npf, mgf, (x, y), kw)
        return compare(lambda: mgf(T(x), T(y), **kwargs), lambda: npf(x, y, **kwargs), lambda: mgf(T(x), T(y), **kwargs))
    if kind == "O":
        _, o, d1, other, refl, side = cell
        f = getattr(operator, o)
        shape = (2, 2) if o == "matmul" else (3,)
        x = arr(shape, d1, 1)
        y = operand(other, shape if other not in PYSCALARS else (), 5)
        if o == "matmul" and other in PYSCALARS:
            return ("skip", "matmul with scalar")
        if o == "floordiv":
            import mygrad as _mg

            Tc = lambda a: _mg.tensor(a, constant=True) if isinstance(a, np.ndarray) else a
            ym = Tc(y) if side == "tensor" else y
            if refl:
                return compare(lambda: f(ym, Tc(x)), lambda: f(y, x), None)
            return compare(lambda: f(Tc(x), ym), lambda: f(x, y), None)
        ym = T(y) if side == "tensor" else y
        if refl:
            return compare(lambda: f(ym if side == "tensor" or other in PYSCALARS else y, T(x)) if not (side == "tensor" and other not in PYSCALARS) else f(T(y), T(x)),
                           lambda: f(y, x), None)
        return compare(lambda: f(T(x), ym), lambda: f(x, y), None)
    if kind == "O1":
        _, o, d1 = cell
        f = getattr(operator, o)
        x = arr((3,), d1, 1)
        return compare(lambda: f(T(x)), lambda: f(x), lambda: f(T(x)))
    if kind == "P":
        _, d1, shape, e, form = cell
        x = arr(shape, d1, 1)
        ex = EXPONENTS[e]
        if form == "**":
            return compare(lambda: T(x) ** ex, lambda: x ** ex, lambda: T(x) ** ex)
        if form == "mg.power":
            return compare(lambda: mg.power(T(x), ex), lambda: np.power(x, ex), lambda: mg.power(T(x), ex))

        def aug_mg():
            t = mg.tensor(x, constant=True)
            t **= ex
            return t

        def aug_np():
            a = x.copy()
            a **= ex
            return a

        return compare(aug_mg, aug_np, None)
    if kind == "IP":
        _, form, lay, vk = cell

        def build(as_tensor):
            a = np.arange(6.0).reshape(2, 3) * 0.75 - 1.0
            if lay == "F":
                a = np.asfortranarray(a)
            elif lay == "Tview":
                a = np.ascontiguousarray(a.T).T  # F-ordered values, same shape
            root = mg.tensor(a, copy=False) if as_tensor else a
            if lay == "Tview" and as_tensor:
                root = mg.tensor(np.ascontiguousarray(a.T))
                root = root.T if False else mg.tensor(a, copy=False)
            take = {"none": lambda r: r, "T.reshape(-1)": lambda r: r.T.reshape(-1), "reshape(-1)": lambda r: r.reshape(-1), "rev": lambda r: r[::-1],
                    "col": lambda r: r[:, 1], "T": lambda r: r.T, "ravel": lambda r: r.ravel()}[vk]
            return root, take(root)

        def run(as_tensor, tracked=True):
            root, v = build(as_tensor)
            shares = np.shares_memory(np.asarray(v.data if as_tensor else v), np.asarray(root.data if as_tensor else root))
            c = np.arange(int(np.prod(v.shape)), dtype=float).reshape(v.shape) + 10.0
            msk = (np.arange(int(np.prod(v.shape))).reshape(v.shape) % 2 == 0)
            if form == "imul":
                v *= 2.0
            elif form == "iadd_arr":
                v += c
            elif form == "set_all":
                v[...] = c
            elif form == "set_idx":
                v[0] = -5.0
            elif form == "mg_out":
                (mg.multiply if as_tensor else np.multiply)(v, 2.0, out=v)
            elif form == "np_out":
                np.add(v, 1.0, out=v)
            else:
                (mg.multiply if as_tensor else np.multiply)(v, 3.0, out=v, where=msk)
            return (np.array(root.data if as_tensor else root), np.array(v.data if as_tensor else v), shares)

        rn = call(lambda: run(False))
        for tracked in (True, False):
            if tracked:
                rm = call(lambda: run(True))
            else:
                with mg.no_autodiff:
                    rm = call(lambda: run(True))
            pre = "" if tracked else "untracked_"
            if rn[0] == "err" or rm[0] == "err":
                if rn[0] != rm[0]:
                    return (pre + "exception", "numpy: %s, mygrad: %s" % (rn[:2], rm[:2]))
                continue
            for label, a, b_ in (("root", rm[1][0], rn[1][0]), ("target", rm[1][1], rn[1][1])):
                if a.shape != b_.shape or not np.array_equal(a, b_):
                    return (pre + "value", "%s after the update: mygrad %s, numpy %s" % (label, np.array2string(a.ravel(), precision=4), np.array2string(b_.ravel(), precision=4)))
            if rm[1][2] != rn[1][2]:
                return (pre + "aliasing", "target shares memory with its root: mygrad %r, numpy %r" % (rm[1][2], rn[1][2]))
        return None
    if kind == "OUT":
        _, fn, tgt = cell
        A_ = np.arange(6.0).reshape(2, 3) * 0.5 - 1.0
        B_ = np.arange(12.0).reshape(3, 4) * 0.25 + 0.5
        V_ = np.array([1.5, -2.0, 0.75])
        if fn.startswith("einsum_"):
            sub = fn.split("_", 1)[1]
            ops_ = {"ij,jk->ik": (A_, B_), "ij->j": (A_,), "i,i->": (V_, V_)}[sub]
            npcall = lambda out, *a: np.einsum(sub, *a, out=out)
            mgcall = lambda out, *a: mg.einsum(sub, *a, out=out)
        else:
            ops_ = (A_,)
            npcall = lambda out, a: np.clip(a, -0.5, 0.75, out=out)
            mgcall = lambda out, a: mg.clip(a, -0.5, 0.75, out=out)
        oshape = np.shape(npcall(None, *ops_) if fn.startswith("einsum") else np.clip(A_, -0.5, 0.75))

        def run(as_tensor):
            big = np.full((2,) + tuple(oshape), 7.0)
            if tgt in ("ndarray", "tensor"):
                root = np.full(oshape, 7.0)
                if tgt == "tensor" and as_tensor:
                    root = mg.tensor(root, copy=False)
                target = root
            else:
                root = mg.tensor(big, copy=False) if (tgt == "tensor_view" and as_tensor) else big
                target = root[1, ...]
            if as_tensor:
                r = mgcall(target, *[mg.tensor(o) for o in ops_])
            else:
                r = npcall(target, *ops_)
            # (a tracked update gives a tensor target a new array: the target is read through the tensor, not through the array it wrapped)
            return (np.array(root.data if isinstance(root, mg.Tensor) else root), np.array(r.data if isinstance(r, mg.Tensor) else r))

        rn = call(lambda: run(False))
        for tracked in (True, False):
            if tracked:
                rm = call(lambda: run(True))
            else:
                with mg.no_autodiff:
                    rm = call(lambda: run(True))
            pre = "" if tracked else "untracked_"
            if rn[0] == "err" or rm[0] == "err":
                if rn[0] != rm[0]:
                    return (pre + "exception", "numpy: %s, mygrad: %s" % (rn[:2], rm[:2]))
                continue
            if not np.array_equal(rm[1][0], rn[1][0]):
                return (pre + "out_value", "memory of the out= target after the call: mygrad %s, numpy %s" % (np.array2string(rm[1][0].ravel(), precision=4), np.array2string(rn[1][0].ravel(), precision=4)))
            if rm[1][1].shape != rn[1][1].shape or not np.array_equal(rm[1][1], rn[1][1]):
                return (pre + "value", "returned value differs from numpy")
        return None
    if kind == "R16":
        _, r, which, form = cell
        x = {"1000x100": lambda: np.full(1000, 100.0, dtype=np.float16), "4096x0.1": lambda: np.full(4096, 0.1, dtype=np.float16),
             "2x600x55": lambda: np.full((2, 600), 55.0, dtype=np.float16)}[which]()
        kwargs = {"axis": -1} if r == "cumsum" or x.ndim == 2 else {}
        if form == "func":
            return compare(lambda: getattr(mg, r)(T(x), **kwargs), lambda: getattr(np, r)(x, **kwargs), lambda: getattr(mg, r)(T(x), **kwargs))
        if form == "np":
            return compare(lambda: getattr(np, r)(T(x), **kwargs), lambda: getattr(np, r)(x, **kwargs), None)
        return compare(lambda: getattr(T(x), r)(**kwargs), lambda: getattr(x, r)(**kwargs), lambda: getattr(T(x), r)(**kwargs))
    if kind == "W":
        _, fn, dt, sc, form = cell
        scv = {"0.1": 0.1, "1.1": 1.1, "3": 3, "True": True, "300": 300}[sc]
        x = np.array([0.1, 1.1, 3.0, 1.0, 0.0, 44.0]).astype(dt)
        npf = getattr(np, fn)
        opf = {"equal": operator.eq, "not_equal": operator.ne, "less": operator.lt, "less_equal": operator.le, "greater": operator.gt, "greater_equal": operator.ge,
               "floor_divide": operator.floordiv}.get(fn)
        Tc = lambda a: mg.tensor(a, constant=True)  # (the rounding family accepts constants only)
        if form == "np":
            return compare(lambda: npf(Tc(x), scv), lambda: npf(x, scv), lambda: npf(Tc(x), scv))
        if form == "mg":
            if not hasattr(mg, fn):
                return ("skip", "no mygrad function of that name")
            return compare(lambda: getattr(mg, fn)(Tc(x), scv), lambda: npf(x, scv), None)
        if opf is None:
            return ("skip", "no operator for this function")
        if form == "operator":
            return compare(lambda: opf(Tc(x), scv), lambda: opf(x, scv), None)
        return compare(lambda: opf(scv, Tc(x)), lambda: opf(scv, x), None)
    if kind == "SEQ":
        _, b, d1, ka, kb = cell
        x = arr((3,), d1, 1)
        npf, mgf = getattr(np, b), getattr(mg, b)
        for k in (ka, kb):
            r = compare(lambda: mgf(T(x), PYSCALARS[k]), lambda: npf(x, PYSCALARS[k]), None)
            if r is not None:
                return (r[0], "call with %s (after a call with %s): %s" % (k, ka, r[1])) if k == kb else r
        return None
    if kind == "SQ":
        _, fn, kinds = cell
        mk = {"pyfloat": lambda: 2.5, "pyint": lambda: 3, "npf32": lambda: np.float32(2), "f32arr": lambda: np.array(1.5, dtype=np.float32), "i8arr": lambda: np.array(4, dtype=np.int8)}
        a, b_ = mk[kinds[0]](), mk[kinds[1]]()
        if fn == "stack":
            return compare(lambda: mg.stack([a, b_]), lambda: np.stack([a, b_]), None)
        if fn == "concatenate":
            return compare(lambda: mg.concatenate([[a], [b_]]), lambda: np.concatenate([[a], [b_]]), None)
        if fn == "where":
            return compare(lambda: mg.where(True, a, b_), lambda: np.where(True, a, b_), None)
        return compare(lambda: mg.add_sequence(a, b_, a), lambda: a + b_ + a, None)
    if kind == "R":
        _, r, dt, shape, axis, kd, kw, form = cell
        x = arr(shape, dt, 2)
        kwargs = {}
        if axis is not None or r in ("cumsum", "cumprod"):
            kwargs["axis"] = axis
        if kd:
            kwargs["keepdims"] = True
        if kw and kw.startswith("dtype="):
            kwargs["dtype"] = kw.split("=")[1]
        if kw == "ddof=1":
            kwargs["ddof"] = 1
        import inspect

        target = getattr(mg, r) if form == "func" else getattr(mg.Tensor, r, None)
        if target is None:
            return ("skip", "no such method")
        try:
            params = inspect.signature(target).parameters
            if not all(k in params for k in kwargs) and not any(p.kind == p.VAR_KEYWORD for p in params.values()):
                return ("skip", "keyword not in the MyGrad signature")
        except (TypeError, ValueError):
            pass
        if form == "func":
            return compare(lambda: getattr(mg, r)(T(x), **kwargs), lambda: getattr(np, r)(x, **kwargs), lambda: getattr(mg, r)(T(x), **kwargs))
        if not hasattr(mg.Tensor, r):
            return ("skip", "no such method")
        return compare(lambda: getattr(T(x), r)(**kwargs), lambda: getattr(x, r)(**kwargs), lambda: getattr(T(x), r)(**kwargs))
    # catalogue-driven: the case's own MyGrad callable vs its NumPy namesake / functional model, operands cast to dt
    _, i, dt = cell
    case = cat(kind)[i]
    npf = case.get("np") or (case["shadow"] if kind == "M" else None)
    if npf is None:
        return ("skip", "no NumPy namesake for this case")
    if case["op"] in ("clip", "abs", "sinc", "cot", "sec", "csc", "coth", "sech", "csch", "arccot", "arcsec", "arccsc", "arccsch", "arccoth", "add_sequence", "multiply_sequence", "multi_matmul"):
        return ("skip", "the model of this case is not its NumPy namesake")

    def cast(a):
        if dt == "bool":
            return a > 0
        return a.astype(dt)

    xs = [cast(a) for a in case["operands"]]
    return compare(lambda: case["mg"](*[T(a) for a in xs]), lambda: npf(*xs), lambda: case["mg"](*[T(a) for a in xs]))


def nontrivial(cell):
    return True


def outcome(cell):
    return "ok:" + cell[0]


def signature(cell, f):
    return base.stable_hash((cell[0], cell[1] if cell[0] in ("U", "B", "O", "O1", "R", "SEQ", "SQ", "W", "IP", "OUT", "R16") else (cell[4] if cell[0] == "P" else ""), f[0], f[1][:24]))


def script(cell, f):
    return "# C03 cell %r\n# %s: %s\n" % (cell, f[0], f[1])


def plan(tier, seed):
    me = __import__("harness.C03", fromlist=["x"])
    return conf.make_plan(
        me, tier, seed, nchunks=64,
        rule="full product per entry-point family (see module docstring); cells NumPy itself rejects require rejection; every cell distinct",
        bounds={"dtypes": DTYPES, "pyscalars": list(PYSCALARS), "shapes": SHAPES},
        assumptions=["NumPy %s (NEP 50 promotion) is the reference" % np.__version__, "warnings silenced; NaN compares equal to NaN"],
    )


def replay(case):
    return conf.replay_cell(__import__("harness.C03", fromlist=["x"]), case)


def finalize(v):
    return conf.finalize_cell(__import__("harness.C03", fromlist=["x"]), v)


def m_weak_scalar_promotion(v):
    """F-C03: Python-scalar operands are wrapped as 0-d float64/int64 arrays, losing NEP 50 weak typing."""
    f = v.get("failure") or {}
    cell = (v.get("case") or {}).get("cell") or []
    has_py = any(isinstance(c, str) and c in PYSCALARS for c in cell)
    return has_py and f.get("kind") in ("dtype", "untracked_dtype", "value", "untracked_value", "not_rejected", "exception")


def m_pow_shortcut_keeps_base_dtype(v):
    """F-C03b: `t ** e` / `t **= e` with a scalar (or 0-d array) exponent equal to 1 or 2 is evaluated as +t / square(t),
    which keeps t's dtype where NumPy's power promotes with the exponent's dtype (or rejects the in-place cast)."""
    f = v.get("failure") or {}
    cell = (v.get("case") or {}).get("cell") or []
    if not cell or f.get("kind") not in ("dtype", "untracked_dtype", "not_rejected", "value", "untracked_value"):
        return False
    if cell[0] == "P":
        e = EXPONENTS[cell[3]]
        return cell[4] in ("**", "**=") and np.ndim(e) == 0 and not isinstance(e, bool) and e in (1, 2)
    if cell[0] == "O" and cell[1] == "pow" and not cell[4]:
        return cell[3] in PYSCALARS and not isinstance(PYSCALARS[cell[3]], bool) and PYSCALARS[cell[3]] in (1, 2)
    return False


MATCHERS = {"weak_scalar_promotion": m_weak_scalar_promotion, "pow_shortcut_keeps_base_dtype": m_pow_shortcut_keeps_base_dtype}
