"""C18 -- save/load round-trips a tensor's data, dtype and gradient (CONF engine).

Full lattice shape x dtype x constant x gradient {absent, present, present through a view, non-contiguous}
x tensor kind {leaf, has creator, view} x file kind {str path with .npz, str path without, pathlib.Path,
BytesIO, real file object}."""
import io
import os
import pathlib
import tempfile

import numpy as np

from mc import base, conf

PROPERTY = "C18"
LEVEL = "exploration"

SHAPES = [(), (0,), (1,), (3,), (2, 3), (2, 0)]
DTYPES = ["float16", "float32", "float64", "int8", "int32", "int64", "bool"]
GRADS = ["absent", "present", "viewgrad", "noncontig"]
KINDS = ["leaf", "creator", "view", "view_perm", "view_stridedT"]  # the last two: neither C- nor F-contiguous, axis order != memory order
FILES = ["str_npz", "str_bare", "path", "bytesio", "fileobj", "str_dotted", "path_bare", "path_dotted", "str_npz_upper", "namedtemp", "spooled", "duck", "bytesio_offset"]
# path targets: (file name handed to save, as pathlib.Path?) ; the file written must be the one numpy.savez writes for that name
NAMED = {"str_bare": ("t", False), "str_dotted": ("t.v2", False), "path_bare": ("t", True), "path_dotted": ("run.a", True), "str_npz_upper": ("t.NPZ", False)}


class _Duck:
    """a file object by duck typing only (delegates to a BytesIO; not an io.IOBase)"""

    def __init__(self, f):
        self._f = f

    def __getattr__(self, name):
        return getattr(self._f, name)


def cells(tier):
    for shape in SHAPES:
        for dt in DTYPES:
            for const in (False, True):
                for g in GRADS:
                    for k in KINDS:
                        for f in FILES:
                            yield (shape, dt, const, g, k, f)


def build(shape, dt, const, g, k):
    """-> tensor t (or None if the combination cannot exist)"""
    import mygrad as mg

    isfloat = dt.startswith("float")
    if not isfloat and not const:
        return None  # integer/bool tensors are always constant
    if g != "absent" and (const or not isfloat):
        return None  # constants never have gradients
    n = int(np.prod(shape))
    vals = (np.arange(n).reshape(shape) * 0.75 - 1.0)
    if dt == "bool":
        vals = (np.arange(n).reshape(shape) % 2 == 0)
    base_arr = vals.astype(dt)
    if k == "leaf":
        t = mg.tensor(base_arr, constant=const)
        src = t
    elif k == "creator":
        src = mg.tensor(base_arr, constant=const)
        t = +src if dt != "bool" else mg.tensor(base_arr, constant=const)[...]
    elif k == "view":
        src = mg.tensor(base_arr, constant=const)
        t = src[...]
    else:
        if len(shape) != 2 or 0 in shape:
            return None
        big = (np.arange(2 * n).reshape(shape[0], shape[1], 2) * 0.75 - 1.0) if k == "view_perm" else (np.arange(2 * n).reshape(shape[0], 2 * shape[1]) * 0.75 - 1.0)
        if dt == "bool":
            big = big > 0
        src = mg.tensor(big.astype(dt), constant=const)
        t = mg.transpose(src, (1, 0, 2)) if k == "view_perm" else src[:, ::2].T
        if t.data.flags.c_contiguous or t.data.flags.f_contiguous:
            return None
    if g == "absent":
        return t
    if g == "present":
        if k == "leaf":
            (t * 2).sum().backward() if t.ndim else (t * 2).backward()
        else:
            # gradient set on a non-leaf: run backward from t itself
            t.backward(np.full(t.shape, 1.5, dtype=dt))
        return t
    if g == "viewgrad":
        if not k.startswith("view"):
            return None
        (src * mg.tensor(np.arange(src.size).reshape(src.shape).astype(dt), constant=True)).sum().backward() if src.ndim else (src * 3).backward()
        return t  # t.grad is available only through the view-gradient path
    if g == "noncontig":
        if len(shape) < 2 or 0 in shape:
            return None
        w = np.arange(n).reshape(shape[::-1]).astype(dt)
        if k == "leaf":
            (t.T * w).sum().backward()
        else:
            return None
        return t
    return None


def snapshot(t):
    g = t.grad
    return (t.data.tobytes(), str(t.dtype), t.shape, t.constant, None if g is None else (g.tobytes(), str(g.dtype), g.shape),
            type(t.creator).__name__, t.base is None, len(t._ops))


def check(cell):
    import mygrad as mg

    shape, dt, const, g, k, fk = cell
    t = build(shape, dt, const, g, k)
    if t is None:
        return ("skip", "combination cannot exist")
    if g != "absent" and t.grad is None:
        return ("skip", "gradient not available for this combination")
    before = snapshot(t)
    tmp = tempfile.mkdtemp(prefix="c18_", dir="/dev/shm" if os.path.isdir("/dev/shm") else None)
    try:
        try:
            if fk == "str_npz":
                p = os.path.join(tmp, "t.npz")
                mg.save(p, t)
                loaded = mg.load(p)
            elif fk in NAMED:
                name, as_path = NAMED[fk]
                p = os.path.join(tmp, name)
                mg.save(pathlib.Path(p) if as_path else p, t)
                written = sorted(os.listdir(tmp))
                expect = name if name.endswith(".npz") else name + ".npz"  # numpy.savez's documented rule
                if written != [expect]:
                    return ("file", "save(%r) wrote %r, numpy.savez writes %r" % (name, written, [expect]))
                loaded = mg.load(os.path.join(tmp, expect))
            elif fk == "path":
                p = pathlib.Path(tmp) / "t.npz"
                mg.save(p, t)
                loaded = mg.load(p)
            elif fk == "bytesio":
                b = io.BytesIO()
                mg.save(b, t)
                b.seek(0)
                loaded = mg.load(b)
            elif fk == "bytesio_offset":
                # the tensor is not at the start of the file object: the caller positions it, save/load work from there
                b = io.BytesIO()
                b.write(b"seventeen bytes!!")
                mg.save(b, t)
                b.seek(17)
                loaded = mg.load(b)
            elif fk in ("namedtemp", "spooled", "duck"):
                # binary file objects that are not io.IOBase subclasses (NumPy duck-types file objects)
                fh = {"namedtemp": lambda: tempfile.NamedTemporaryFile(dir=tmp), "spooled": lambda: tempfile.SpooledTemporaryFile(max_size=10 ** 6),
                      "duck": lambda: _Duck(io.BytesIO())}[fk]()
                try:
                    mg.save(fh, t)
                    fh.seek(0)
                    loaded = mg.load(fh)
                finally:
                    fh.close()
            else:
                p = os.path.join(tmp, "t.npz")
                with open(p, "wb") as fh:
                    mg.save(fh, t)
                with open(p, "rb") as fh:
                    loaded = mg.load(fh)
        except Exception as e:
            eb = base.exc_brief(e)
            del e
            return ("exception", "%s: %s" % eb)
    finally:
        for f in os.listdir(tmp):
            os.remove(os.path.join(tmp, f))
        os.rmdir(tmp)
    after = snapshot(t)
    if after != before:
        return ("save_altered_tensor", "snapshot of t (data, grad, creator, consumers) changed by save/load")
    if not isinstance(loaded, mg.Tensor):
        return ("type", "load returned %s" % type(loaded).__name__)
    if loaded.dtype != t.dtype or loaded.shape != t.shape:
        return ("dtype_shape", "loaded %s %s, original %s %s" % (loaded.dtype, loaded.shape, t.dtype, t.shape))
    if not np.array_equal(loaded.data, t.data, equal_nan=True):
        return ("data", "loaded data differs")
    if (loaded.grad is None) != (t.grad is None):
        return ("grad_noneness", "loaded.grad is %s, t.grad is %s" % ("None" if loaded.grad is None else "array", "None" if t.grad is None else "array"))
    if t.grad is not None:
        if loaded.grad.dtype != t.grad.dtype or loaded.grad.shape != t.grad.shape or not np.array_equal(loaded.grad, t.grad):
            return ("grad", "loaded grad %s %s differs from %s %s" % (loaded.grad.dtype, loaded.grad.shape, t.grad.dtype, t.grad.shape))
    return None


def nontrivial(cell):
    return cell[3] != "absent" or cell[4] != "leaf" or cell[5] != "str_npz"


def outcome(cell):
    return "ok:%s/%s" % (cell[3], cell[5])


def plan(tier, seed):
    return conf.make_plan(
        __import__("harness.C18", fromlist=["x"]), tier, seed, nchunks=32,
        rule="full product shape x dtype x constant x gradient kind x tensor kind x file kind (combinations that cannot exist are skipped and "
        "not counted); non-trivial = a gradient is present, or the tensor is not a plain leaf, or the file is not a .npz path",
        bounds=dict(shapes=SHAPES, dtypes=DTYPES, grads=GRADS, kinds=KINDS, files=FILES),
        assumptions=["files are written under /dev/shm (or the default tmp dir) and removed per cell"],
    )


def replay(case):
    return conf.replay_cell(__import__("harness.C18", fromlist=["x"]), case)


def finalize(v):
    return conf.finalize_cell(__import__("harness.C18", fromlist=["x"]), v)


MATCHERS = {}
