"""C08 -- memory guard: arrays in a live graph are read-only, and restored afterwards (HIST engine).

World: caller arrays A (writeable) and R (read-only), NumPy views of them, tensors.  Statements: ops on
arrays / views / tensors (incl. both operands aliasing one buffer), view ops, out=ndarray targets,
in-place tensor updates, failing ops, backward, clear_graph, dropping any reference, one statement
under mem_guard_off.  After every statement the live graph is read off the implementation (walk from
the program's tensors) and the writeable flag of every array is compared with the rule of C08."""
import gc
import weakref

import numpy as np

from mc import base

PROPERTY = "C08"
LEVEL = "model_checking"
# MyGrad's lock tables are keyed by id(array): a stale entry of a dead array can collide with a new array at the same
# address, so a handful of raw observations depend on the allocator's history and do not replay (DESIGN section 0)
NONREPRODUCIBLE_OK = True

BOUNDS = {"quick": [("empty", 4), ("family", 3), ("spent", 3), ("views", 4), ("roview", 3), ("shapes", 4)],
          "thorough": [("empty", 5), ("family", 4), ("spent", 4), ("written", 4), ("views", 5), ("roview", 4), ("shapes", 5)]}
MAX_SLOTS = 6


def ub(a):
    while a.base is not None:
        a = a.base
    return a


class World:
    def __init__(self, kind):
        import mygrad as mg

        base.reset_mygrad()
        self.mg = mg
        self.wkind = kind
        self.s = {}  # name -> object (ndarray or Tensor)
        self.kind = {}  # name -> 'arr' | 'npv' | 'ten'
        self.order = []
        self.orig = []  # (weakref(ultimate base array), original flag) for natively read-only roots
        self.universe = []  # weakrefs of program-visible arrays that entered an op
        self.cleared = []  # (weakref(tensor), time)
        self.births = []  # (weakref(op), time, exempt)
        self.time = 0
        self.add("A", np.array([0.5, -0.75, 1.25, -1.5]), "arr")
        R = np.array([0.25, 1.5, -0.5, 2.0])
        R.flags.writeable = False
        self.add("R", R, "arr")
        self.orig.append((weakref.ref(R), False))
        if kind == "family":
            x = mg.tensor([1.0, 2.0, 3.0, 4.0])
            self.add("x", x, "ten")
            v = x[...]
            self.add("v", v, "ten")
            self.add("vv", v[...], "ten")
            self.enter(x.data, v.data, self.s["vv"].data)
        elif kind == "spent":
            x = mg.tensor([1.0, 2.0, 3.0, 4.0])
            self.add("x", x, "ten")
            y = x * 2.0
            self.add("y", y, "ten")
            self.note_births()
            self.mark_cleared(y)
            y.backward()
            self.enter(x.data, y.data)
        elif kind == "views":
            self.add("V1", self.s["A"][1:], "npv")
            self.add("V2", self.s["A"][:3], "npv")
            self.add("x3", mg.tensor([1.0, 2.0, 3.0]), "ten")  # an input that does not touch A's memory
        elif kind == "roview":
            RV = self.s["A"][1:]
            RV.flags.writeable = False  # the caller made this view of a writeable array read-only
            self.add("RV", RV, "npv")
            self.orig.append((weakref.ref(RV), False))
        elif kind == "shapes":
            # two independent tensors and a consumer: `.shape =` replays the tensor as a view of an internal placeholder and
            # leaves short-lived views behind (whose ids the lock tables may still hold when a later array recycles them)
            x = mg.tensor([1.0, 2.0, 3.0])
            self.add("x", x, "ten")
            self.add("y", mg.tensor([0.5, -0.25]), "ten")
            self.add("t0", x * 2.0, "ten")
            self.enter(x.data, self.s["y"].data, self.s["t0"].data)
        elif kind == "written":
            x = mg.tensor([1.0, 2.0, 3.0, 4.0])
            self.add("x", x, "ten")
            self.add("v", x[1:], "ten")
            x[:2] = 0.5
            self.enter(x.data, self.s["v"].data)
        self.note_births()

    def add(self, name, obj, kind):
        self.s[name] = obj
        self.kind[name] = kind
        self.order.append(name)

    def drop(self, name):
        self.order.remove(name)
        del self.s[name]
        del self.kind[name]

    def enter(self, *arrs):
        for a in arrs:
            if isinstance(a, np.ndarray) and not any(r() is a for r in self.universe):
                self.universe.append(weakref.ref(a))

    def orig_flag(self, arr):
        for r, f in self.orig:  # an array registered itself (e.g. a view the caller made read-only)
            if r() is arr:
                return f
        u = ub(arr)
        for r, f in self.orig:
            if r() is u:
                return f
        return True

    # ---- observation of the implementation's graph
    def walk(self):
        """-> (tensors, ops) reachable from the program's tensors: ops = list of (op, output tensor)"""
        stack = [self.s[n] for n in self.order if self.kind[n] == "ten"]
        seen = set()
        ops = []
        seen_ops = set()
        while stack:
            u = stack.pop()
            if id(u) in seen:
                continue
            seen.add(id(u))
            c = u._creator
            if c is not None:
                if id(c) not in seen_ops:
                    seen_ops.add(id(c))
                    ops.append((c, u))
                stack.extend(c.variables)
            if u._base is not None:
                stack.append(u._base)
        del stack
        return ops

    def note_births(self, exempt=False):
        known = {id(b[0]()) for b in self.births if b[0]() is not None}
        for op, out in self.walk():
            if id(op) not in known:
                # the arrays the op referred to when it was recorded (a later in-place update can swap the data of
                # a public input tensor under the op without the op being rerouted)
                arrs = []
                for var in op.variables:
                    arrs.append(var.data)
                    if var.data.base is not None:
                        arrs.append(var.data.base)
                arrs.append(out.data)
                if out.data.base is not None:
                    arrs.append(out.data.base)
                refs = []
                for a in arrs:
                    try:
                        refs.append(weakref.ref(a))
                    except TypeError:
                        pass
                self.births.append((weakref.ref(op), self.time, exempt, refs))

    def mark_cleared(self, t):
        stack = [t]
        seen = set()
        while stack:
            u = stack.pop()
            if id(u) in seen:
                continue
            seen.add(id(u))
            self.cleared.append((weakref.ref(u), self.time))
            if u._creator is not None:
                stack.extend(u._creator.variables)
        del stack

    def upstream_ids(self, op):
        stack = list(op.variables)
        seen = set()
        while stack:
            u = stack.pop()
            if id(u) in seen:
                continue
            seen.add(id(u))
            if u._creator is not None:
                stack.extend(u._creator.variables)
        del stack
        return seen

    def check(self):
        """the C08 rule on the current state; returns None or (kind, where, detail)"""
        ops = self.walk()
        birth = {}
        birth_arrays = {}
        for r, t, ex, refs in self.births:
            o = r()
            if o is not None:
                birth[id(o)] = (t, ex)
                birth_arrays[id(o)] = refs
            del o
        cleared = []
        for r, t in self.cleared:
            o = r()
            if o is not None:
                cleared.append((id(o), t))
            del o
        referenced_fams = set()
        for op, out in ops:
            b = birth.get(id(op))
            if b is None:
                return ("harness", "op without birth record", type(op).__name__)
            t_birth, exempt = b
            if exempt:
                continue
            arrs = []
            for var in op.variables:
                arrs.append(var.data)
                if var.data.base is not None:
                    arrs.append(var.data.base)
            arrs.append(out.data)
            if out.data.base is not None:
                arrs.append(out.data.base)
            for a in arrs:
                referenced_fams.add(id(ub(a)))
            for r in birth_arrays.get(id(op), ()):
                a = r()
                if a is not None:
                    referenced_fams.add(id(ub(a)))
                del a
            up = self.upstream_ids(op)
            intact = not any(i in up and t >= t_birth for i, t in cleared)
            if intact:
                for a in arrs:
                    if a.flags.writeable:
                        who = [n for n in self.order if (self.s[n] is a) or (self.kind[n] == "ten" and self.s[n].data is a)]
                        return ("writeable_in_live_graph", type(op).__name__, "an array of an intact live %s op is writeable (%s)" % (type(op).__name__, who[0] if who else "internal/base array"))
            del arrs
        del ops
        selfreg = [r() for r, _ in self.orig]
        # arrays the caller itself made read-only are looked at last, so that finding F-C08b cannot mask
        # a different violation in the same state
        for r in sorted(self.universe, key=lambda r: any(r() is x for x in selfreg if x is not None and x.base is not None)):
            a = r()
            if a is None:
                continue
            if id(ub(a)) in referenced_fams:
                continue
            exp = self.orig_flag(a)
            if bool(a.flags.writeable) != exp:
                who = [n for n in self.order if (self.s[n] is a) or (self.kind[n] == "ten" and self.s[n].data is a)]
                return ("flag_not_restored", who[0] if who else "?", "no live graph refers to this array, writeable=%r but originally %r" % (bool(a.flags.writeable), exp))
            del a
        return None


# ------------------------------------------------------------------ statements
def enabled(w, guard_used):
    sts = []
    names = list(w.order)
    nxt = "s%d" % w.time
    room = len(names) < MAX_SLOTS
    if w.wkind == "shapes":
        for n in names:
            if w.kind[n] != "ten":
                continue
            if room:
                sts.append(("mul", nxt, n))
                sts.append(("tview", nxt, n))
            sts += [("setshape", n), ("iadd", n), ("backward", n), ("clear", n), ("del", n)]
        sts.append(("bwall",))
        return sts
    for n in names:
        k = w.kind[n]
        if room:
            if k == "arr":
                sts.append(("npview", nxt, n))
            sts.append(("mul", nxt, n))
            if not guard_used:
                sts.append(("mul_off", nxt, n))
            if k in ("arr", "npv"):
                sts.append(("alias", nxt, n))
                sts.append(("wrap", nxt, n))
            if k == "ten":
                sts.append(("tview", nxt, n))
            for tgt in names:
                if w.kind[tgt] in ("arr", "npv") and tgt != n and w.s[tgt].shape == np.shape(w.s[n]):
                    sts.append(("out", nxt, n, tgt))
        if k == "ten":
            sts.append(("iadd", n))
            # in-place updates whose other operand is a caller array (writeable, read-only, or a view)
            for src in names:
                if w.kind[src] in ("arr", "npv") and np.shape(w.s[src]) == w.s[n].shape:
                    sts.append(("iadd_arr", n, src))
                    if src == "R":
                        sts.append(("set_arr", n, src))
            sts.append(("backward", n))
            sts.append(("clear", n))
        sts.append(("fail", n))
        sts.append(("fail_rej", n))
        sts.append(("fail_fpe", n))
        if k == "ten":
            sts.append(("fail_idx", n))
        if n not in ("A", "R"):
            sts.append(("del", n))
    return sts


def render(st):
    k = st[0]
    return {
        "npview": lambda: "%s = %s[1:]" % (st[1], st[2]),
        "mul": lambda: "%s = mg.multiply(%s, 2.0)" % (st[1], st[2]),
        "mul_off": lambda: "with mg.mem_guard_off: %s = mg.multiply(%s, 2.0)" % (st[1], st[2]),
        "alias": lambda: "%s = mg.add(%s, %s[::-1])" % (st[1], st[2], st[2]),
        "wrap": lambda: "%s = mg.tensor(%s, copy=False)" % (st[1], st[2]),
        "tview": lambda: "%s = %s[1:]" % (st[1], st[2]),
        "out": lambda: "%s = mg.add(%s, 1.0, out=%s)" % (st[1], st[2], st[3]),
        "iadd": lambda: "%s += 1.0" % st[1],
        "iadd_arr": lambda: "%s += %s" % (st[1], st[2]),
        "set_arr": lambda: "%s[...] = %s" % (st[1], st[2]),
        "backward": lambda: "%s.backward()" % st[1],
        "clear": lambda: "%s.clear_graph()" % st[1],
        "fail": lambda: "try: mg.matmul(%s, np.zeros((9, 9)))\nexcept ValueError: pass" % st[1],
        "fail_rej": lambda: "try: mg.add(%s.view(np.int64), 1, constant=False)  # forward succeeds, the integer result is rejected\nexcept ValueError: pass" % st[1],
        "fail_fpe": lambda: "try:\n    with np.errstate(divide='raise'): mg.divide(%s, 0.0)\nexcept FloatingPointError: pass" % st[1],
        "fail_idx": lambda: "try: %s[7]\nexcept IndexError: pass" % st[1],
        "del": lambda: "del %s" % st[1],
        "setshape": lambda: "%s.shape = (-1, 1) if %s.ndim == 1 else (-1,)" % (st[1], st[1]),
        "bwall": lambda: "sum((t * 1.5).sum() for t in <all live tensors>).backward()",
    }[k]()


def apply(w, st):
    """returns None, or ('raised', brief) when a statement raised (only `out` and `fail` may)"""
    mg = w.mg
    k = st[0]
    s = w.s
    exempt = False
    res = None
    try:
        if k == "npview":
            w.add(st[1], s[st[2]][1:], "npv")
        elif k == "mul":
            src = s[st[2]]
            t = mg.multiply(src, 2.0)
            w.add(st[1], t, "ten")
            w.enter(src if isinstance(src, np.ndarray) else src.data, t.data)
        elif k == "mul_off":
            exempt = True
            with mg.mem_guard_off:
                t = mg.multiply(s[st[2]], 2.0)
            w.add(st[1], t, "ten")
        elif k == "alias":
            src = s[st[2]]
            t = mg.add(src, src[::-1])
            w.add(st[1], t, "ten")
            w.enter(src, t.data)
        elif k == "wrap":
            w.add(st[1], mg.tensor(s[st[2]], copy=False), "ten")
        elif k == "tview":
            t = s[st[2]][1:]
            w.add(st[1], t, "ten")
            w.enter(s[st[2]].data, t.data)
        elif k == "out":
            src, tgt = s[st[2]], s[st[3]]
            t = mg.add(src, 1.0, out=tgt)
            w.add(st[1], t, "ten")
            w.enter(src if isinstance(src, np.ndarray) else src.data, tgt, t.data)
        elif k == "iadd":
            t = s[st[1]]
            t += 1.0
            s[st[1]] = t
            w.enter(t.data)
        elif k in ("iadd_arr", "set_arr"):
            t = s[st[1]]
            src = s[st[2]]
            if k == "iadd_arr":
                t += src
            else:
                t[...] = src
            s[st[1]] = t
            w.enter(t.data, src)
        elif k == "backward":
            w.mark_cleared(s[st[1]])
            s[st[1]].backward()
        elif k == "clear":
            w.mark_cleared(s[st[1]])
            s[st[1]].clear_graph()
        elif k == "fail":
            src = s[st[1]]
            try:
                mg.matmul(src, np.zeros((9, 9)))
                res = ("no_raise", "")
            except ValueError as e:
                del e
            w.enter(src if isinstance(src, np.ndarray) else src.data)
        elif k == "fail_rej":
            src = s[st[1]]
            arr = src if isinstance(src, np.ndarray) else src.data
            try:
                mg.add(arr.view(np.int64), 1, constant=False)
                res = ("no_raise", "")
            except ValueError as e:
                del e
            # (the op saw a temporary int64 view and the memory's owner, never `arr` itself: only the owner enters the universe)
            w.enter(ub(arr))
        elif k == "fail_fpe":
            src = s[st[1]]
            try:
                with np.errstate(divide="raise"):
                    mg.divide(src, 0.0)
                res = ("no_raise", "")
            except FloatingPointError as e:
                del e
            w.enter(src if isinstance(src, np.ndarray) else src.data)
        elif k == "fail_idx":
            src = s[st[1]]
            try:
                src[7]
                res = ("no_raise", "")
            except IndexError as e:
                del e
            w.enter(src.data)
        elif k == "del":
            w.drop(st[1])
        elif k == "setshape":
            t = s[st[1]]
            t.shape = (t.size, 1) if t.ndim == 1 else (t.size,)
            w.enter(t.data)
        elif k == "bwall":
            L = None
            for n in w.order:
                if w.kind[n] == "ten":
                    term = (s[n] * 1.5).sum()
                    L = term if L is None else L + term
            if L is not None:
                w.mark_cleared(L)
                L.backward()
            del L
    except Exception as e:
        eb = base.exc_brief(e)
        del e
        res = ("raised", "%s: %s" % eb)
        if k in ("mul", "alias", "out"):
            src = s[st[2]]
            w.enter(src if isinstance(src, np.ndarray) else src.data)
    w.time += 1
    w.note_births(exempt)
    return res


def run_history(wkind, h):
    """-> (failure or None, world or None)"""
    w = World(wkind)
    f = w.check()
    if f is not None:
        return (0, ("init",)) + f, w
    guard_used = False
    for i, st in enumerate(h):
        st = tuple(st)
        ro_before = st[0] in ("iadd", "iadd_arr", "set_arr") and not w.s[st[1]].data.flags.writeable
        r = apply(w, st)
        if r is not None and r[0] == "raised":
            if st[0] in ("backward", "clear", "bwall") and r[1].startswith("InvalidBackprop"):
                return ("loud",), w  # legitimate loud failure (C09); the branch ends here
            # out= into a read-only target, and an in-place update of a tensor whose memory the caller
            # cannot write (natively read-only, or a NumPy view of a locked array), must raise
            legit = st[0] == "out" or (ro_before and "read-only" in r[1])
            if not legit:
                # an unexpected exception is not C08's business (C07/C13 report it); but a failed
                # operation must still leave the flags right: check once more, then end the branch
                f = w.check()
                if f is not None:
                    return (i, st) + f, w
                return ("loud",), w
        if r is not None and r[0] == "no_raise":
            return (i, st, "harness", "", "failing op did not raise"), w
        f = w.check()
        if f is not None:
            return (i, st) + f, w
    return None, w


def quiescence(w):
    """drop every tensor the program holds; all caller arrays must be back to their original flag"""
    for n in list(w.order):
        if w.kind[n] == "ten":
            w.drop(n)
    for n in w.order:
        a = w.s[n]
        if any(r() is a for r in w.universe) and bool(a.flags.writeable) != w.orig_flag(a):
            return ("flag_not_restored_at_quiescence", n, "writeable=%r, originally %r, after every tensor was dropped" % (bool(a.flags.writeable), w.orig_flag(a)))
    return None


def explore(wkind, prefix, depth, acc):
    stack = [list(prefix)]
    while stack:
        h = stack.pop()
        f, w = run_history(wkind, h)
        acc.inc("evaluations")
        acc.inc("transitions", 1 if h else 0)
        if f == ("loud",):
            acc.outcome("branch ended: InvalidBackprop")
            w.s.clear()
            continue
        if f is None:
            ext = enabled(w, any(s[0] == "mul_off" for s in h)) if len(h) < depth else []
            sig = tuple((n, w.kind[n], bool((w.s[n] if w.kind[n] != "ten" else w.s[n].data).flags.writeable)) for n in w.order)
            acc.states.add(hash((sig, tuple(s[0] for s in h[-2:]))))
            q = quiescence(w)
            if q is not None:
                f = (len(h), ("drop all tensors",)) + q
        w.s.clear()
        del w
        if f is not None:
            if f[2] == "harness":
                acc.inc("harness_errors")
                acc.notes.add("HARNESS-ERROR %r in %r" % (f, h))
                continue
            acc.violation({"case": {"world": wkind, "history": h}, "failure": f})
            acc.outcome("fail:" + f[2])
            continue
        acc.outcome("ok")
        acc.inc("traces")
        if any(s[0] in ("backward", "clear", "bwall", "del", "fail", "fail_rej", "fail_fpe", "fail_idx") for s in h) and any(s[0] in ("mul", "alias", "out", "tview", "iadd", "iadd_arr", "set_arr", "setshape") for s in h):
            acc.nontrivial.add(base.stable_hash((wkind, h)))
        if len(acc.samples) < 2 and len(h) == depth:
            acc.samples.append("[%s] " % wkind + "; ".join(render(s) for s in h))
        for st in reversed(ext):
            stack.append(h + [st])


def run_task(task):
    wkind, prefix, depth, seed = task
    acc = base.Acc()
    explore(wkind, prefix, depth, acc)
    gc.collect()
    return acc


def plan(tier, seed):
    tasks = []
    for wkind, depth in BOUNDS[tier]:
        w = World(wkind)
        firsts = enabled(w, False)
        w.s.clear()
        tasks.append((wkind, [], 0, seed))
        for st in firsts:
            f, w1 = run_history(wkind, [st])
            if f is not None or depth < 3:
                w1.s.clear()
                tasks.append((wkind, [st], depth, seed))
                continue
            tasks.append((wkind, [st], 1, seed))
            for st2 in enabled(w1, st[0] == "mul_off"):
                tasks.append((wkind, [st, st2], depth, seed))
            w1.s.clear()
    return dict(
        tasks=tasks,
        run=run_task,
        rule="all statement sequences up to the depth bound from the empty world and from pre-built worlds (view family, spent graph, "
        "written family, caller-made read-only view, two independent tensors with `.shape=` statements and a terminal over all live tensors); non-trivial = history with an op that locks and a release event (backward/clear/del/failing op)",
        bounds={w: d for w, d in BOUNDS[tier]},
        assumptions=[
            "live ops are read off the implementation by walking creator.variables and .base from the program's tensors",
            "an op is waived (not required to be locked) if some tensor upstream of it was cleared after the op was recorded, or if it was recorded under mem_guard_off",
            "restoration is checked per memory family: while any live op refers to an array of the family, other members are unconstrained",
            "universe = arrays that entered an op; a NumPy view taken while locked counts with its owner's original flag",
        ],
    )


def replay(case):
    f, w = run_history(case["world"], [tuple(s) for s in case["history"]])
    if f == ("loud",):
        f = None
    elif f is None:
        q = quiescence(w)
        if q is not None:
            f = (len(case["history"]), ("drop all tensors",)) + q
    w.s.clear()
    return [dict(failure=f)] if f is not None else []


def _fails(wkind, h):
    r = replay({"world": wkind, "history": h})
    return r[0]["failure"] if r else None


def well_formed(wkind, h):
    w = World(wkind)
    live = set(w.order)
    w.s.clear()
    for st in h:
        used = [x for x in st[1:] if isinstance(x, str)]
        creates = st[0] in ("npview", "mul", "mul_off", "alias", "wrap", "tview", "out")
        for u in used[1:] if creates else used:
            if u not in live:
                return False
        if creates:
            live.add(st[1])
        if st[0] == "del":
            live.discard(st[1])
    return True


def finalize(v):
    case = v["case"]
    wkind = case["world"]
    h = [tuple(s) for s in case["history"]]
    f0 = _fails(wkind, h)
    if f0 is None:
        return None
    kind = f0[2]
    changed = True
    while changed:
        changed = False
        for i in range(len(h) - 1, -1, -1):
            c = h[:i] + h[i + 1:]
            if not well_formed(wkind, c):
                continue
            f = _fails(wkind, c)
            if f is not None and f[2] == kind:
                h = c
                changed = True
    f = _fails(wkind, h)
    lines = ["# world %r; then:" % wkind] + [render(s) for s in h] + ["# %s at step %d: %s %s" % (f[2], f[0], f[3], f[4])]
    return dict(
        case=dict(world=wkind, history=h),
        failure=dict(step=f[0], kind=f[2], where=f[3], detail=f[4]),
        script="\n".join(lines) + "\n",
        signature=base.stable_hash((wkind, tuple(s[0] for s in h), f[2])),
        min_history=h,
    )


def m_documented_lock_leak(v):
    """F-C08 (repo: tests/tensor_base/test_memory_locking.py xfail): a view-of-view family, backward on a
    view, an in-place update on that view, a second backward -> arrays stay read-only with no live graph."""
    h = v.get("min_history") or []
    kinds = [s[0] for s in h]
    f = v.get("failure") or {}
    return (v.get("case") or {}).get("world") in ("family",) and f.get("kind", "").startswith("flag_not_restored") and "iadd" in kinds and "backward" in kinds


def m_readonly_view_of_writeable_base(v):
    """F-C08b: a view that the caller made read-only, of an array that is itself writeable, is handed to an op;
    the lock manager takes it for a view that merely inherited a lock (its base is locked first, by the same
    op) and 'restores' it to writeable on release."""
    f = v.get("failure") or {}
    return ((v.get("case") or {}).get("world") == "roview" and f.get("where") == "RV"
            and str(f.get("kind", "")).startswith("flag_not_restored") and "writeable=True but originally False" in f.get("detail", "").replace("writeable=True, originally False", "writeable=True but originally False"))


MATCHERS = {"documented_lock_leak": m_documented_lock_leak, "readonly_view_of_writeable_base": m_readonly_view_of_writeable_base}
