"""C15 -- no_autodiff / mem-guard switches are scoped, exception-safe, value-preserving.

All block-structured programs with <= n nodes over With(m) / Decorated(m) / Try / Raise / TurnOn /
TurnOff / Probe, m in {no_autodiff, mem_guard_on, mem_guard_off} (singletons: nesting the same
manager is re-entrant use of one object), executed with real `with` / decorator / try syntax.  A stack
interpreter predicts (TRACK_GRAPH, MEM_GUARD) after every enter, exit, raise and statement; Probe runs a
mini-workload and checks the no_autodiff clause (or that the memory guard is / is not in force)."""
import itertools

import numpy as np

from mc import base

PROPERTY = "C15"
LEVEL = "model_checking"
BOUNDS = {"quick": (5, 0, 4), "thorough": (5, 6, 5)}  # max nodes: full alphabet, reduced alphabet, early-decoration alphabet
MANAGERS = ("no_autodiff", "mem_guard_on", "mem_guard_off")
LEAVES = ("raise", "turn_on", "turn_off", "probe")


class Boom(Exception):
    pass


class Mismatch(BaseException):
    def __init__(self, where, detail):
        self.where, self.detail = where, detail


# ------------------------------------------------------------------ program enumeration
class Enum:
    """all blocks with exactly n nodes over a choice of leaf / container kinds (memoised below the top)"""

    def __init__(self, leaves=LEAVES, dec=True, decg=False):
        self.leaves, self.dec, self.decg = leaves, dec, decg
        self.bm, self.nm = {}, {}

    def blocks(self, n):
        if n not in self.bm:
            self.bm[n] = list(self.iter_blocks(n))
        return self.bm[n]

    def iter_blocks(self, n):
        if n == 0:
            yield ()
            return
        for k in range(1, n + 1):
            for head in self.nodes(k):
                for tail in self.blocks(n - k):
                    yield (head,) + tail

    def nodes(self, k):
        if k not in self.nm:
            out = []
            if k == 1:
                out += [(leaf,) for leaf in self.leaves]
            for body in self.blocks(k - 1):
                for m in MANAGERS:
                    out.append(("with", m, body))
                    if self.dec:
                        out.append(("dec", m, body))
                    if self.decg:
                        out.append(("decg", m, body))
                out.append(("try", body))
            self.nm[k] = out
        return self.nm[k]

    def count(self, n):
        return sum(1 for _ in self.iter_blocks(n)) if n not in self.bm else len(self.bm[n])


FULL = Enum()
REDUCED = Enum(leaves=("raise", "turn_on", "turn_off"), dec=False)
# functions decorated at program start (under the defaults) and called later, possibly under other settings
EARLY = Enum(leaves=("raise", "turn_on", "turn_off", "probe"), dec=False, decg=True)


def blocks(n):
    return FULL.blocks(n)


def render(block, ind=0):
    pad = "    " * ind
    lines = []
    for i, nd in enumerate(block):
        k = nd[0]
        if k == "with":
            lines.append("%swith mg.%s:" % (pad, nd[1]))
            lines += render(nd[2], ind + 1) or [pad + "    pass"]
        elif k == "dec":
            lines.append("%s@mg.%s\n%sdef f():" % (pad, nd[1], pad))
            lines += render(nd[2], ind + 1) or [pad + "    pass"]
            lines.append("%sf()" % pad)
        elif k == "decg":
            lines.append("%sg()  # g was defined at the top of the program as: @mg.%s def g(): <the block below>" % (pad, nd[1]))
            lines += render(nd[2], ind + 1) or [pad + "    pass"]
        elif k == "try":
            lines.append("%stry:" % pad)
            lines += render(nd[1], ind + 1) or [pad + "    pass"]
            lines.append("%sexcept Boom:\n%s    pass" % (pad, pad))
        elif k == "raise":
            lines.append("%sraise Boom()" % pad)
        elif k == "turn_on":
            lines.append("%smg.turn_memory_guarding_on()" % pad)
        elif k == "turn_off":
            lines.append("%smg.turn_memory_guarding_off()" % pad)
        elif k == "probe":
            lines.append("%sprobe()  # compare switches with the stack model; run the mini-workload" % pad)
    return lines


# ------------------------------------------------------------------ the stack model
class M:
    """T, G: predicted TRACK_GRAPH / MEM_GUARD; G may be None = not defined by the property
    (a turn_* call made inside a scope, until an enclosing mem-guard scope restores it)"""

    def __init__(self):
        self.T, self.G = True, True
        self.depth = 0
        self.states = set()
        self.transitions = 0

    def enter(self, m):
        saved = (self.T, self.G)
        self.depth += 1
        if m == "no_autodiff":
            self.T = False
        elif m == "mem_guard_on":
            self.G = True
        else:
            self.G = False
        return saved

    def exit(self, m, saved):
        self.depth -= 1
        if m == "no_autodiff":
            self.T = saved[0]
        else:
            self.G = saved[1]

    def turn(self, on):
        self.G = on if self.depth == 0 else None


class Fixture:
    pass


def check(model, where):
    import mygrad._utils.graph_tracking as _t
    import mygrad._utils.lock_management as _m

    model.transitions += 1
    model.states.add((model.T, model.G, model.depth))
    if _t.TRACK_GRAPH is not model.T:
        raise Mismatch(where, "TRACK_GRAPH is %r, stack model says %r" % (_t.TRACK_GRAPH, model.T))
    if model.G is not None and _m.MEM_GUARD is not model.G:
        raise Mismatch(where, "MEM_GUARD is %r, stack model says %r" % (_m.MEM_GUARD, model.G))


def probe(model, where):
    import mygrad as mg
    import mygrad._utils.lock_management as _m

    check(model, where)
    A = np.array([1.0, 2.0, 3.0])
    if model.T:
        if model.G is None:
            return
        w = mg.multiply(A, 2.0)
        if bool(A.flags.writeable) is model.G:
            raise Mismatch(where, "tracking on, guard %r: input array writeable=%r after an op" % (model.G, bool(A.flags.writeable)))
        if w.creator is None:
            raise Mismatch(where, "tracking on but the result has no creator")
        del w
        if not A.flags.writeable:
            raise Mismatch(where, "array still locked after its only graph was dropped")
        pg = FIX.pool.pop().grad
        if pg is None or not np.array_equal(pg, FIX.vb.grad[1:]):
            raise Mismatch(where, "gradient of a view recorded earlier reads %r" % (pg,))
        check(model, where)
        return
    # ---- no_autodiff clause
    # a view recorded while tracking, whose gradient is materialised here for the first time (the library replays the view
    # op on the base's gradient inside a scope of its own, which must hand the switches back as it found them)
    pv = FIX.pool.pop()
    pg = pv.grad
    if pg is None or not np.array_equal(pg, FIX.vb.grad[1:]):
        raise Mismatch(where, "gradient of a view recorded earlier reads %r under no_autodiff" % (pg,))
    check(model, where)
    for fn, ref in FIX.battery:
        r = fn()
        if r.dtype != ref.dtype or not np.array_equal(r.data, ref.data, equal_nan=True):
            raise Mismatch(where, "value/dtype under no_autodiff differs from the tracked run: %s %s vs %s %s" % (r.dtype, r.data, ref.dtype, ref.data))
        if r.creator is not None or r.base is not None:
            raise Mismatch(where, "result records a creator or base under no_autodiff")
    # in-place updates of a tensor that holds a gradient: written into its own memory, the gradient stays
    gw = FIX.gpool.pop()
    gkeep, gdata = gw.grad.copy(), gw.data
    gw -= 0.5
    gw[...] = 1.0
    mg.multiply(gw, 2.0, out=gw)
    if gw.data is not gdata or not np.array_equal(gdata, [2.0, 2.0]):
        raise Mismatch(where, "in-place update under no_autodiff did not write into the tensor's own memory")
    if gw.grad is None or not np.array_equal(gw.grad, gkeep):
        raise Mismatch(where, "an in-place update under no_autodiff changed its target's gradient to %r" % (gw.grad,))
    # an operation that raises: the arrays a live tracked graph keeps locked stay locked
    # shape assignment: in the tensor's own array object, and refused where NumPy refuses it
    A2 = np.arange(6.0).reshape(2, 3)
    zs = mg.tensor(A2, copy=False)
    zsd = zs.data
    zs.shape = (3, 2)
    if zs.data is not zsd or zs.shape != (3, 2) or A2.shape != (3, 2):
        raise Mismatch(where, "shape assignment under no_autodiff did not reshape the tensor's own array in place")
    zt = mg.tensor(np.arange(6.0).reshape(2, 3).T, copy=False)
    ztd = zt.data
    try:
        zt.shape = (6,)
        refused = False
    except Exception as e:
        del e
        refused = True
    if not refused or zt.data is not ztd or zt.shape != (3, 2):
        raise Mismatch(where, "shape assignment NumPy refuses (non-contiguous data) was accepted under no_autodiff (shape now %r)" % (zt.shape,))
    # (the graph lsrc -> lgraph was recorded at the start of this program, after the lock tables were reset)
    try:
        mg.matmul(FIX.lsrc, np.zeros((9, 9)))
        raise Mismatch(where, "harness: failing op did not raise")
    except ValueError as e:
        del e
    if FIX.lsrc.data.flags.writeable or FIX.lgraph.data.flags.writeable:
        raise Mismatch(where, "a failed op under no_autodiff unlocked arrays that a live tracked graph had locked")
    x = FIX.x
    ops_before = len(x._ops)
    g_before = x.grad.copy()
    y = x * 2.0
    ref = FIX.tracked_mul
    if not np.array_equal(y.data, ref.data) or y.dtype != ref.dtype:
        raise Mismatch(where, "value/dtype under no_autodiff differs from the tracked run")
    v = x[1:]
    if y.creator is not None or v.creator is not None or y.base is not None or v.base is not None:
        raise Mismatch(where, "result records a creator or base under no_autodiff")
    if len(x._ops) != ops_before:
        raise Mismatch(where, "input recorded a consumer under no_autodiff")
    if x.grad is None or not np.array_equal(x.grad, g_before):
        raise Mismatch(where, "input gradient changed under no_autodiff")
    w = mg.multiply(A, 2.0)
    if not A.flags.writeable or not x.data.flags.writeable:
        raise Mismatch(where, "an array was locked under no_autodiff")
    z = mg.tensor(A, copy=False)
    zd = z.data
    z += 1.0
    z[0] = 7.0
    np_view = A
    if z.data is not zd or not np.array_equal(np_view, [7.0, 3.0, 4.0]):
        raise Mismatch(where, "in-place update under no_autodiff did not write into the tensor's own memory")
    y.backward()
    w.backward()
    for t, what in ((FIX.cgraph, "constant tensor"), (FIX.ngraph, "tensor")):
        cr = t.creator
        up = t.creator.variables[0]
        ops_up = len(up._ops)
        t.backward()
        if t.creator is not cr or len(up._ops) != ops_up or up.grad is not None:
            raise Mismatch(where, "backward() under no_autodiff on a %s whose graph was recorded while tracking changed that graph" % what)
    if x.grad is None or not np.array_equal(x.grad, g_before) or y.grad is not None:
        raise Mismatch(where, "backward() did something under no_autodiff")
    # an int tensor may be produced without complaint; complex too (no dtype gate when not tracking)
    check(model, where)
    return


FIX = Fixture()


def make_fixture():
    import mygrad as mg

    base.reset_mygrad()
    FIX.x = mg.tensor([0.5, -1.5, 2.0])
    (FIX.x * 3.0).sum().backward()
    xx = mg.tensor([0.5, -1.5, 2.0])
    FIX.tracked_mul = (xx * 2.0)
    FIX.tracked_mul.clear_graph()
    # graphs recorded while tracking, to be poked from inside no_autodiff scopes
    FIX.src1, FIX.src2 = mg.tensor([1.0, 2.0]), mg.tensor([3.0, 4.0])
    FIX.cgraph = mg.multiply(FIX.src1, 2.0, constant=True)
    FIX.ngraph = FIX.src2 * 3.0
    FIX.pool = []
    FIX.gpool = []
    FIX.refills = 0
    refill_pool()
    # Python-scalar operands with tensors of non-default dtypes: the untracked path must resolve dtypes like the tracked one
    x32, x16, i8 = mg.tensor([0.5, -1.5, 2.0], dtype="float32"), mg.tensor([0.5, -1.5, 2.0], dtype="float16"), mg.tensor([1, -2, 3], dtype="int8")
    FIX.battery_src = (x32, x16, i8)
    fns = [lambda: x32 * 0.1, lambda: 2.0 + x16, lambda: i8 + 3, lambda: x32 ** 2, lambda: mg.maximum(x16, 1), lambda: i8 * 2.5, lambda: mg.exp(x32), lambda: x32.sum()]
    FIX.battery = []
    for fn in fns:
        r = fn()
        r.clear_graph()
        FIX.battery.append((fn, r))


def refill_pool():
    """(called with the default settings in force) views of a base holding a gradient, recorded while tracking, never yet asked for .grad"""
    import mygrad as mg

    if FIX.refills % 64 == 0:
        FIX.vb = mg.tensor([0.5, -1.5, 2.0, 4.0])
        (FIX.vb * 3.0).sum().backward()
    FIX.refills += 1
    FIX.pool += [FIX.vb[1:] for _ in range(32)]
    for _ in range(32):
        w = mg.tensor([1.0, 2.0])
        (w * 3.0).sum().backward()
        FIX.gpool.append(w)


MGR = {}


def run_block(block, model, path):
    for i, nd in enumerate(block):
        run_node(nd, model, path + (i,))


def run_node(nd, model, path):
    k = nd[0]
    if k == "with":
        m = MGR[nd[1]]
        entered = False
        saved = None
        try:
            with m:
                saved = model.enter(nd[1])
                entered = True
                check(model, ("enter", path))
                run_block(nd[2], model, path)
        finally:
            if entered:
                model.exit(nd[1], saved)
                check(model, ("exit", path))
    elif k == "dec":
        m = MGR[nd[1]]
        st = {}

        @m
        def f():
            st["saved"] = model.enter(nd[1])
            check(model, ("enter-decorated", path))
            run_block(nd[2], model, path)

        try:
            f()
        finally:
            if "saved" in st:
                model.exit(nd[1], st["saved"])
                check(model, ("exit-decorated", path))
    elif k == "decg":
        st = {}
        f = EARLY_FUNCS[id(nd)]
        try:
            f(st, model, path)
        finally:
            if "saved" in st:
                model.exit(nd[1], st["saved"])
                check(model, ("exit-decorated-early", path))
    elif k == "try":
        try:
            run_block(nd[1], model, path)
        except Boom:
            check(model, ("except", path))
    elif k == "raise":
        raise Boom()
    elif k == "turn_on":
        MGR["mg"].turn_memory_guarding_on()
        model.turn(True)
        check(model, ("turn_on", path))
    elif k == "turn_off":
        MGR["mg"].turn_memory_guarding_off()
        model.turn(False)
        check(model, ("turn_off", path))
    elif k == "probe":
        probe(model, ("probe", path))


EARLY_FUNCS = {}


def predecorate(block):
    """decorate every `decg` function now (module level, default settings), to be called when its node runs"""
    for nd in block:
        if nd[0] == "decg":
            m = MGR[nd[1]]

            def make(nd):
                @m
                def g(st, model, path):
                    st["saved"] = model.enter(nd[1])
                    check(model, ("enter-decorated-early", path))
                    run_block(nd[2], model, path)

                return g

            EARLY_FUNCS[id(nd)] = make(nd)
            predecorate(nd[2])
        elif nd[0] in ("with", "dec"):
            predecorate(nd[2])
        elif nd[0] == "try":
            predecorate(nd[1])


def run_program(block):
    """-> (failure or None, model)"""
    base.reset_mygrad()
    model = M()
    EARLY_FUNCS.clear()
    if len(FIX.pool) < 8:
        refill_pool()
    # a live tracked graph of this program (default settings are in force here): its arrays are locked
    FIX.lsrc = MGR["mg"].tensor([3.0, 4.0])
    FIX.lgraph = FIX.lsrc * 3.0
    predecorate(block)
    try:
        try:
            run_block(block, model, ())
        except Boom:
            pass
        check(model, ("end", ()))
    except Mismatch as e:
        return (e.where, e.detail), model
    except Exception as e:
        eb = base.exc_brief(e)
        del e
        return (("exception", ()), "%s: %s" % eb), model
    return None, model


def all_programs(n, nred, nearly=0):
    for k in range(0, n + 1):
        yield from FULL.iter_blocks(k) if k == n else FULL.blocks(k)
    for k in range(1, nearly + 1):
        for b in (EARLY.iter_blocks(k) if k == nearly else EARLY.blocks(k)):
            if "decg" in repr(b):
                yield b
    if nred:
        # deeper, with decorators folded into `with` and without probes
        yield from REDUCED.iter_blocks(nred)


# ------------------------------------------------------------------ value preservation over the op catalogue
def w_compare(f_mg, f_np, f_mg_again=None):
    """stand-in for C03.compare: tracked call vs the same call (fresh operands) inside `with no_autodiff` and through the decorator form"""
    import mygrad as mg
    import mygrad._utils.graph_tracking as _t
    from harness import C03

    if f_mg_again is None:
        return ("skip", "no second thunk")
    rt = C03.call(f_mg)
    for mode in ("with", "decorator"):
        if mode == "with":
            with mg.no_autodiff:
                ru = C03.call(f_mg_again)
        else:
            ru = mg.no_autodiff(lambda: C03.call(f_mg_again))()
        if _t.TRACK_GRAPH is not True:
            return ("switch", "TRACK_GRAPH is %r after leaving the scope (%s form)" % (_t.TRACK_GRAPH, mode))
        if (rt[0] == "err") != (ru[0] == "err"):
            return ("untracked_differs", "%s form: tracked call %s, untracked call %s" % (mode, rt[:2] if rt[0] == "err" else "succeeds", ru[:2] if ru[0] == "err" else "succeeds"))
        if rt[0] == "err":
            continue
        d = C03.same(ru[1], rt[1].data if isinstance(rt[1], mg.Tensor) else rt[1])
        if d is not None:
            return ("untracked_" + d[0], "%s form: %s" % (mode, d[1].replace("mygrad", "under no_autodiff").replace("numpy", "with tracking")))
        outs = ru[1] if isinstance(ru[1], tuple) else (ru[1],)
        for o in outs:
            if isinstance(o, mg.Tensor) and (o.creator is not None or o.base is not None):
                return ("untracked_records", "%s form: the result has a creator or base" % mode)
    return None


def w_cells(tier):
    from harness import C03

    for cell in C03.cells("quick"):
        if cell[0] in ("SEQ", "SQ", "O"):
            continue  # (cells whose C03 comparison has no untracked variant)
        if any(isinstance(c, str) and ("noout" in c or c.startswith("out+") or c in ("where", "out") or c.startswith("where+")) for c in cell):
            continue  # out= targets are C15's in-place clause (probe); C03's masked cells compare partially initialised arrays
        yield cell


def w_check(cell):
    from harness import C03

    saved = C03.compare
    C03.compare = w_compare
    try:
        return C03.check(cell)
    finally:
        C03.compare = saved


def run_w_task(task):
    _, stride, offset, tier = task
    base.reset_mygrad()
    acc = base.Acc()
    for cell in itertools.islice(w_cells(tier), offset, None, stride):
        r = w_check(cell)
        acc.inc("evaluations")
        if r is not None and r[0] == "skip":
            acc.outcome("skip:" + r[1][:40])
            continue
        acc.inc("traces")
        acc.nontrivial.add(base.stable_hash(cell))
        if r is not None:
            acc.violation({"case": {"wcell": cell}, "failure": (0, ("catalogue cell",), r[0], "", r[1])})
            acc.outcome("fail:" + r[0])
        else:
            acc.outcome("ok:catalogue")
    return acc


def run_task(task):
    if task[0] == "W":
        return run_w_task(task)
    n, nred, nearly, stride, offset, seed = task
    import mygrad as mg

    MGR.update(no_autodiff=mg.no_autodiff, mem_guard_on=mg.mem_guard_on, mem_guard_off=mg.mem_guard_off, mg=mg)
    make_fixture()
    acc = base.Acc()
    for i, b in enumerate(itertools.islice(all_programs(n, nred, nearly), offset, None, stride)):
        f, model = run_program(b)
        acc.inc("evaluations")
        acc.inc("traces")
        acc.inc("transitions", model.transitions)
        acc.states |= model.states
        if f is not None:
            acc.violation({"case": {"program": b}, "failure": (0, ("program",), "mismatch", str(f[0]), f[1])})
            acc.outcome("fail")
        else:
            acc.outcome("ok")
        txt = repr(b)
        if ("raise" in txt or "turn" in txt) and ("with" in txt or "dec" in txt):
            acc.nontrivial.add(hash(b))
        if len(acc.samples) < 1 and i == 5000:
            acc.samples.append("\n".join(render(b)))
    base.reset_mygrad()
    return acc


def plan(tier, seed):
    n, nred, nearly = BOUNDS[tier]
    stride = 64
    total = sum(FULL.count(k) for k in range(n + 1))
    tred = REDUCED.count(nred) if nred else 0
    return dict(
        tasks=[(n, nred, nearly, stride, o, seed) for o in range(stride)] + [("W", 32, o, tier) for o in range(32)],
        run=run_task,
        rule="all block-structured programs with <= %d nodes (%d programs) over with/decorator/try/raise/turn_on/turn_off/probe x 3 managers"
        "%s; states = distinct (TRACK_GRAPH, MEM_GUARD, depth) model states; transitions = comparisons of the real switches with the stack "
        "model; non-trivial = program combining a scope with a raise or turn_* call; plus every cell of C03's op catalogue (ufuncs x dtypes x Python scalars, "
        "operators' special exponents, reductions, manipulation, indexing, linalg) run tracked and, with fresh operands, inside `with no_autodiff` and through the decorator: equal values, dtype, shape, no creator/base"
        % (n, total, (" plus all programs with exactly %d nodes (%d) without decorators and probes" % (nred, tred)) if nred else ""),
        bounds={"max_nodes_full": n, "programs_full": total, "nodes_reduced": nred, "programs_reduced": tred, "max_nodes_early_decoration": nearly},
        samples=["\n".join(render(FULL.blocks(3)[50]))],
        assumptions=[
            "MEM_GUARD between a turn_* call made inside any scope and the exit of an enclosing mem-guard scope is not compared (the property does not define it)",
            "the three managers are the library's singletons: nested use is re-entrant use of the same object",
        ],
    )


def replay(case):
    import mygrad as mg
    from mc.hist import tuplify

    if "wcell" in case:
        base.reset_mygrad()
        r = w_check(tuplify(case["wcell"]))
        return [dict(failure=r)] if r is not None and r[0] != "skip" else []
    MGR.update(no_autodiff=mg.no_autodiff, mem_guard_on=mg.mem_guard_on, mem_guard_off=mg.mem_guard_off, mg=mg)
    make_fixture()

    def tup(x):
        return tuple(tup(i) for i in x) if isinstance(x, (list, tuple)) else x

    f, _ = run_program(tup(case["program"]))
    base.reset_mygrad()
    return [dict(failure=f)] if f is not None else []


def finalize(v):
    if "wcell" in v["case"]:
        r = replay(v["case"])
        if not r:
            return None
        f = r[0]["failure"]
        cell = v["case"]["wcell"]
        return dict(case={"wcell": cell}, failure=dict(kind=f[0], detail=f[1]), script="# op-catalogue cell %r (see harness/C03.py for its meaning), tracked vs no_autodiff\n# %s: %s\n" % (cell, f[0], f[1]),
                    signature=base.stable_hash((str(cell[0]), str(cell[1]), f[0], f[1][:30])))
    b = v["case"]["program"]
    r = replay({"program": b})
    if not r:
        return None
    f = r[0]["failure"]
    return dict(case={"program": b}, failure=dict(where=str(f[0]), detail=f[1]),
                script="import mygrad as mg\nclass Boom(Exception): pass\n" + "\n".join(render(b)) + "\n# %s: %s\n" % (f[0], f[1]),
                signature=base.stable_hash((f[1][:40], f[0][0])))


MATCHERS = {}
