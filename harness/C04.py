"""C04 -- views and in-place updates mirror NumPy's memory semantics (HIST engine).

Every history of view / non-view / in-place / `.shape=` statements up to the depth bound is executed
on the real MyGrad and on NumPy shadow arrays; after every statement all live tensors are compared
(values bitwise, shape, dtype, pairwise shares_memory, .base, identity, constant flag)."""
import numpy as np

from mc import base, explore
from mc.hist import ddmin, render, script, tuplify

PROPERTY = "C04"
LEVEL = "model_checking"

CFG_1D = dict(
    value_only=("y",),
    views=("all", "s1", "rev", "i0", "na", "r22", "T", "flat", "sw", "dg", "rav"),
    ops1=("pos", "mul2", "adv"),
    set_idx=("all", "s1", "i0"),
    iops=("iadd", "imul", "ipow2"),
    outs=(("add", None), ("multiply", 0)),
    setshape={(4,): ((2, 2),), (2, 2): ((4,),), (3,): ((3, 1),), (2,): ((1, 2),), (4, 1): ((2, 2),), (3, 1): ((3,),), (2, 3): ((3, 2),), (3, 2): ((6,),), (6,): ((2, 3),)},
    max_live=6,
    set_all_tensor=False,
    badshape=True,  # shape assignments NumPy rejects must be rejected and change nothing
)
CFG_2D = dict(CFG_1D, set_idx=("all", "i0", "c0"))

WORLDS = {
    "x4": ([("x", (4,), 0, False), ("y", (3,), 5, False)], CFG_1D),
    "x23": ([("x", (2, 3), 0, False), ("y", (3,), 7, False)], CFG_2D),
    "x23F": ([("x", (2, 3), 0, False, "F"), ("y", (3,), 7, False)], CFG_2D),
    "x4c": ([("x", (4,), 0, True), ("y", (3,), 5, False)], CFG_1D),
    "x23c": ([("x", (2, 3), 0, True), ("y", (3,), 7, True)], CFG_2D),
}

SUB = dict(  # the productive corner: views, .shape=, in-place
    CFG_1D, ops1=(), views=("all", "s1", "rev", "na", "r22", "flat", "T"), outs=(("add", None),), iops=("iadd", "imul"),
)
WORLDS["x4sub"] = (WORLDS["x4"][0], SUB)
# explicit constant= on views of a constant base; memory owned by an ndarray subclass
CFG_K = dict(CFG_1D, views=("all", "s1", "rev", "rsF", "rsT", "flat", "T"), ops1=("mul2",), outs=(("add", None), ("multiply", 0)))
WORLDS["x4k"] = ([("x", (4,), 0, True), ("y", (3,), 5, False)], CFG_K)
WORLDS["x4cls"] = ([("x", (4,), 0, False, "sub"), ("y", (3,), 5, False)], dict(CFG_1D, views=("all", "s1", "rev", "r22", "na"), ops1=("mul2",)))

# in-place updates that raise (and are caught) in between; and a world in which every statement runs under mem_guard_off
CFG_FAIL = dict(CFG_1D, views=("s1", "rev", "all"), ops1=("mul2",), set_idx=("s1", "all"), iops=("iadd",), outs=(), setshape={}, badshape=False, fails=True)
WORLDS["x4fail"] = (WORLDS["x4"][0], CFG_FAIL)
WORLDS["x4goff"] = ([("x", (4,), 0, False, "goff"), ("y", (3,), 5, False)], dict(CFG_1D, views=("s1", "rev", "all", "r22"), ops1=("mul2",), outs=(("add", None),), setshape={}, badshape=False))
# item assignment whose value is the target itself (or a member of its family) under a permuting index
WORLDS["x4self"] = (WORLDS["x4"][0], dict(CFG_1D, views=("s1", "rev"), ops1=(), set_idx=("rev", "all", "s1"), iops=("iadd",), outs=(), setshape={}, badshape=False, self_value=True, set_all_tensor=True))
BOUNDS = {
    "quick": [("x4", 4), ("x23", 3), ("x23F", 3), ("x4k", 3), ("x4cls", 3), ("x4fail", 4), ("x4goff", 3), ("x4self", 3)],
    "thorough": [("x4", 4), ("x23", 4), ("x4c", 3), ("x23c", 3), ("x4sub", 5), ("x23F", 4), ("x4k", 4), ("x4cls", 4), ("x4fail", 5), ("x4goff", 4), ("x4self", 4)],
}


def nontrivial(h, model):
    # a history is non-trivial if it contains an in-place write / shape assignment to a tensor that
    # has at least one other live family member at that time (approximated at the end state)
    if not any(st[0] in ("set", "iop", "out", "setshape", "badshape", "failset") for st in h):
        return False
    fams = [model.fam[n] for n in model.order]
    return len(fams) != len(set(fams))


def run_task(task):
    wname, prefix, depth, seed = task
    init, cfg = WORLDS[wname]
    acc = base.Acc()
    explore.dfs(init, cfg, prefix, depth, acc, seed, nontrivial=nontrivial)
    for v in acc.violations:
        v["case"]["world"] = wname
    return acc


def plan(tier, seed):
    tasks = []
    for wname, depth in BOUNDS[tier]:
        init, cfg = WORLDS[wname]
        k = 2 if depth >= 4 else 1
        if depth >= 5:
            k = 3
        for p in explore.prefixes(init, cfg, k, seed):
            tasks.append((wname, p, depth, seed))
    return dict(
        tasks=tasks,
        run=run_task,
        rule="all statement sequences up to the depth bound from each initial world (DFS, no state merging); "
        "states = distinct (values, sharing pattern, shapes) digests of the NumPy model; non-trivial = history "
        "with >=1 in-place write or .shape assignment (incl. assignments NumPy rejects: must raise and change nothing) while >=2 live tensors share memory",
        bounds={w: d for w, d in BOUNDS[tier]},
        assumptions=[
            "values from a fixed dyadic table rotated by VERIF_SEED; roots (4,) and (2,3); <=6 live tensors",
            "NumPy %s is the reference for values and aliasing" % np.__version__,
            "ownership (.base) defined at tensor level: first live member of the memory family",
        ],
    )


def _fails(init, h, seed):
    r = explore.Run(init, h, seed)
    f = r.failure
    r.close()
    return f


def replay(case):
    init = [(n, tuple(s), o, c) for n, s, o, c in init]
    h = [tuplify(s) for s in case["history"]]
    f = _fails(init, h, case.get("seed", 0))
    return [dict(failure=f)] if f is not None else []


def signature(h, f):
    # kinds of statements (with op names but not slot names) + failure kind
    def ab(st):
        if st[0] == "view":
            return ("view", st[3])
        if st[0] == "op1":
            return ("op1", st[3])
        if st[0] == "set":
            return ("set", st[2], st[3][0])
        if st[0] == "iop":
            return ("iop", st[2])
        if st[0] == "out":
            return ("out", st[2], st[5])
        return (st[0],)

    return base.stable_hash((tuple(ab(s) for s in h), f[2] if f else None))


def finalize(v):
    case = v["case"]
    init = [(i[0], tuple(i[1])) + tuple(i[2:]) for i in case["init"]]
    seed = case.get("seed", 0)
    h = [tuplify(s) for s in case["history"]]
    f0 = _fails(init, h, seed)
    if f0 is None:
        return None
    kind = f0[2]
    hm = ddmin(h, lambda c: (lambda f: f is not None and f[2] == kind)(_fails(init, c, seed)), init)
    f = _fails(init, hm, seed)
    tail = "# expected (NumPy semantics) vs observed: %s at step %d `%s`: %s %s\n" % (f[2], f[0], render(f[1]), f[3], f[4])
    return dict(
        case=dict(init=init, history=hm, seed=seed, world=case.get("world")),
        failure=dict(step=f[0], statement=render(f[1]), kind=f[2], where=f[3], detail=f[4]),
        script=script(init, hm, seed, tail),
        signature=signature(hm, f),
        min_history=hm,
    )


def m_shape_on_view_then_write(v):
    """F-C04: `.shape=` on a *view*, later an in-place write in the same family."""
    h = v.get("min_history") or []
    kinds = [s[0] for s in h]
    return "setshape" in kinds and any(k in ("set", "iop", "out") for k in kinds[kinds.index("setshape"):]) and "view" in kinds[: kinds.index("setshape")]


MATCHERS = {"shape_on_view_then_write": m_shape_on_view_then_write}


def presig(v):
    f = v.get("failure") or ()
    st = f[1] if len(f) > 1 else ()
    ab = (st[0],) + tuple(x for x in st[1:] if isinstance(x, str) and not (x[:1] in "tvxy" and (x[1:].isdigit() or len(x) == 1))) if st else ()
    return base.stable_hash((f[2] if len(f) > 2 else None, ab))
