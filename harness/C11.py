"""C11 -- every public entry point to an operation behaves identically (CONF engine).

For each operation: all its spellings (MyGrad function, NumPy function/ufunc applied to tensors, Tensor method,
operator incl. reflected and augmented forms, out=Tensor, out=ndarray) x operand kinds x shapes.  Differential
oracle: every spelling returns equal values, dtype and constant flag and back-propagates equal operand
gradients under the same seed.  Registered non-differentiable NumPy functions/ufuncs applied to tensors return
plain arrays equal to NumPy's; the rounding/modulo family refuses non-constant tensors in every spelling and
works on constants."""
import itertools
import operator

import numpy as np

from mc import base, conf
from specs import ops as catalogue

PROPERTY = "C11"
LEVEL = "exploration"

BIN = {"add": operator.add, "subtract": operator.sub, "multiply": operator.mul, "divide": operator.truediv, "power": operator.pow, "matmul": operator.matmul,
       "maximum": None, "minimum": None, "arctan2": None, "logaddexp": None, "logaddexp2": None}
IOP = {"add": operator.iadd, "subtract": operator.isub, "multiply": operator.imul, "divide": operator.itruediv, "power": operator.ipow}
UN = ["negative", "positive", "absolute", "exp", "exp2", "expm1", "log", "log2", "log10", "log1p", "sqrt", "cbrt", "square", "reciprocal", "sin", "cos", "tan", "arcsin",
      "arccos", "arctan", "sinh", "cosh", "tanh", "arcsinh", "arccosh", "arctanh"]
RED = ["sum", "mean", "prod", "max", "min", "var", "std", "cumsum", "cumprod"]
CONST_ONLY = ["floor_divide", "remainder", "mod", "fmod", "divmod", "rint", "sign", "floor", "ceil", "trunc"]
BOOL_ONLY = ["isnan", "isfinite", "isinf", "signbit", "logical_not", "logical_and", "logical_or", "logical_xor", "greater", "greater_equal", "less", "less_equal", "equal", "not_equal"]
NODIFF = ["allclose", "isclose", "may_share_memory", "shares_memory", "result_type", "min_scalar_type", "can_cast", "shape", "bincount", "copyto"]
PAIRS = [((3,), (3,)), ((2, 3), (3,)), ((), ()), ((2, 1), (1, 3))]
KINDS = [("t", "t"), ("t", "a"), ("a", "t"), ("t", "s"), ("s", "t")]


def cells(tier):
    for b in BIN:
        for sa, sb in PAIRS:
            for kinds in KINDS:
                if "s" in kinds and (sa if kinds[0] == "s" else sb) != ():
                    continue
                if b == "matmul":
                    if (sa, sb) != ((3,), (3,)) and (sa, sb) != ((2, 3), (3,)) or "s" in kinds:
                        continue
                yield ("B", b, sa, sb, kinds)
    # exponents for which Tensor.__pow__ has shortcuts
    for expo in (1.0, 2.0, 3.0, 0.5):
        for sa in ((3,), ()):
            for kinds in (("t", "t"), ("t", "a"), ("t", "s"), ("a", "t"), ("s", "t")):
                yield ("BP", sa, kinds, expo)
    for u in UN:
        for shape in ((3,), (2, 3), ()):
            yield ("U", u, shape)
    for r in RED:
        for shape in ((3,), (2, 3)):
            for axis in [None, 0, -1] + ([(0, 1)] if len(shape) == 2 and r not in ("cumsum", "cumprod") else []):
                for kd in ((False, True) if r not in ("cumsum", "cumprod") else (False,)):
                    yield ("R", r, shape, axis, kd)
    for m in ("reshape", "transpose", "squeeze", "ravel", "swapaxes", "moveaxis", "expand_dims", "clip", "flatten_vs_ravel", "getitem", "where", "einsum", "T", "std_pos", "var_pos", "sum_pos", "mean_pos", "max_pos", "prod_pos"):
        yield ("M", m)
    for c in CONST_ONLY:
        for const in (False, True, "first_only", "second_only", "out_only"):
            for form in ("np", "mg", "operator"):
                yield ("K", c, const, form)
    for b in BOOL_ONLY:
        yield ("N", b)
    for f in NODIFF:
        yield ("F", f)
    for o in CMP_OPS:
        for kinds in (("t", "t"), ("t", "a"), ("a", "t"), ("t", "s"), ("s", "t"), ("t", "tc"), ("tc", "t")):
            for dt in ("float64", "float32", "int64"):
                yield ("NO", o, kinds, dt)


def vals(shape, off, kind="any"):
    return catalogue.vals(shape, off, kind)


def summarize(out, tensors, g):
    """(value bytes, dtype, constant, grads of the operand tensors) after out.backward(g)"""
    import mygrad as mg

    if not isinstance(out, mg.Tensor):
        return ("not a Tensor: %s" % type(out).__name__,)
    out.backward(g.astype(out.dtype) if g is not None else None)
    return (out.data.tobytes(), str(out.dtype), out.shape, out.constant,
            tuple(None if t.grad is None else (t.grad.shape, str(t.grad.dtype), np.round(t.grad, 12).tobytes()) for t in tensors))


def describe(a, b):
    names = ("values", "dtype", "shape", "constant", "operand gradients")
    if len(a) != len(b):
        return "%r vs %r" % (a[0], b[0])
    for n, x, y in zip(names, a, b):
        if x != y:
            if n == "values":
                return "values differ"
            if n == "operand gradients":
                return "operand gradients differ"
            return "%s: %r vs %r" % (n, x, y)
    return "?"


def run_spellings(spellings):
    """spellings: list of (label, thunk -> summary).  All must agree with the first that succeeds."""
    ref = None
    for label, thunk in spellings:
        base.reset_mygrad()
        try:
            s = thunk()
        except Exception as e:
            eb = base.exc_brief(e)
            del e
            return ("spelling_raised", "%s raised %s: %s" % ((label,) + eb))
        if ref is None:
            ref = (label, s)
        elif s != ref[1]:
            return ("spellings_differ", "%s vs %s: %s" % (ref[0], label, describe(ref[1], s)))
    return None


def check_B(cell):
    import mygrad as mg

    if cell[0] == "BP":
        _, sa, kinds, expo = cell
        b, sb = "power", ()
        A, Bv = vals(sa, 1, "pos"), np.array(expo)
        if kinds[0] != "t":  # the special value sits in whichever operand is the exponent
            A, Bv = vals((), 1, "pos"), np.full(sa, expo)
            sa, sb = (), sa
    else:
        _, b, sa, sb, kinds = cell
        dom = catalogue.BIN_DOMAIN.get(b, ("any", "any"))
        A, Bv = vals(sa, 1, dom[0]), vals(sb, 8, dom[1])
    if b in ("maximum", "minimum") and np.any(np.broadcast_to(A, np.broadcast_shapes(sa, sb)) == np.broadcast_to(Bv, np.broadcast_shapes(sa, sb))):
        return ("skip", "tie")
    oshape = np.broadcast_shapes(sa, sb) if b != "matmul" else np.matmul(A, Bv).shape
    g = catalogue.gtable(oshape)

    def mk():
        ops, tens = [], []
        for v, k in zip((A, Bv), kinds):
            if k == "t":
                t = mg.tensor(v)
                ops.append(t)
                tens.append(t)
            elif k == "a":
                ops.append(v.copy())
            else:
                ops.append(float(v))
        return ops, tens

    def sp(f):
        def thunk():
            ops, tens = mk()
            return summarize(f(*ops), tens, g)
        return thunk

    mgf, npf, opf = getattr(mg, b), getattr(np, b), BIN[b]
    S = [("mg.%s(a, b)" % b, sp(lambda x, y: mgf(x, y))), ("np.%s(a, b)" % b, sp(lambda x, y: npf(x, y)))]
    if opf is not None:
        S.append(("a <op> b", sp(lambda x, y: opf(x, y))))
        if kinds[0] == "t":
            dunder = {"add": "__add__", "subtract": "__sub__", "multiply": "__mul__", "divide": "__truediv__", "power": "__pow__", "matmul": "__matmul__"}[b]
            S.append(("a.%s(b)" % dunder, sp(lambda x, y: getattr(x, dunder)(y))))
        if kinds[1] == "t":
            rd = {"add": "__radd__", "subtract": "__rsub__", "multiply": "__rmul__", "divide": "__rtruediv__", "power": "__rpow__", "matmul": "__rmatmul__"}[b]
            S.append(("b.%s(a)" % rd, sp(lambda x, y: getattr(y, rd)(x))))
    # out= routes and the augmented operator: the target is a fresh tensor / array of the result's shape
    if b != "matmul":
        def out_tensor(x, y):
            t = mg.tensor(np.zeros(oshape))
            r = mgf(x, y, out=t)
            assert r is t
            return r

        def out_tensor_np(x, y):
            t = mg.tensor(np.zeros(oshape))
            return npf(x, y, out=t)

        def out_array(x, y):
            return mgf(x, y, out=np.zeros(oshape))

        S += [("mg.%s(a, b, out=Tensor)" % b, sp(out_tensor)), ("np.%s(a, b, out=Tensor)" % b, sp(out_tensor_np)), ("mg.%s(a, b, out=ndarray)" % b, sp(out_array))]
        # the where= and dtype= routes form their own equivalence classes (different results than the plain call)
        msk = (np.arange(int(np.prod(oshape))).reshape(oshape) % 2 == 0) if oshape else np.array(True)

        def w_mg(x, y):
            t = mg.tensor(np.full(oshape, 0.5))
            return mgf(x, y, where=msk, out=t)

        def w_np(x, y):
            t = mg.tensor(np.full(oshape, 0.5))
            return npf(x, y, where=msk, out=t)

        def w_arr(x, y):
            return mgf(x, y, where=msk, out=np.full(oshape, 0.5))

        r2 = run_spellings([("mg.%s(a, b, where=m, out=Tensor)" % b, sp(w_mg)), ("np.%s(a, b, where=m, out=Tensor)" % b, sp(w_np))])
        if r2 is not None:
            return r2
        r3 = run_spellings([("mg.%s(a, b, dtype=float32)" % b, sp(lambda x, y: mgf(x, y, dtype="float32"))), ("np.%s(a, b, dtype=float32)" % b, sp(lambda x, y: npf(x, y, dtype="float32")))])
        if r3 is not None:
            return r3
        # dtype= together with out= (float64 targets, float32 loop; operand values that do not survive float32)
        def mk32():
            ops, tens = [], []
            for v, k in zip((A, Bv), kinds):
                v = v + np.float64(0.1) * (1 if np.all(v + 0.1 != 0) else 0)
                if k == "t":
                    t = mg.tensor(v)
                    ops.append(t)
                    tens.append(t)
                elif k == "a":
                    ops.append(v.copy())
                else:
                    ops.append(float(v))
            return ops, tens

        def sp32(f):
            def thunk():
                ops, tens = mk32()
                return summarize(f(*ops), tens, g)
            return thunk

        def o32_t(fn):
            def inner(x, y):
                t = mg.tensor(np.zeros(oshape))
                return fn(x, y, out=t, dtype=np.float32)
            return inner

        r4 = run_spellings([("mg.%s(a, b, out=Tensor, dtype=float32)" % b, sp32(o32_t(mgf))), ("np.%s(a, b, out=Tensor, dtype=float32)" % b, sp32(o32_t(npf))),
                            ("mg.%s(a, b, out=ndarray, dtype=float32)" % b, sp32(lambda x, y: mgf(x, y, out=np.zeros(oshape), dtype=np.float32)))])
        if r4 is not None:
            return r4
        if b in IOP and kinds[0] == "t" and oshape == tuple(sa):
            def aug(x, y):
                c = +x
                return IOP[b](c, y)
            S.append(("c = +a; c <op>= b", sp(aug)))
    return run_spellings(S)


def check_U(cell):
    import mygrad as mg

    _, u, shape = cell
    X = vals(shape, 1, catalogue.UNARY_DOMAIN.get(u, "any"))
    g = catalogue.gtable(shape)

    def sp(f):
        def thunk():
            t = mg.tensor(X)
            return summarize(f(t), [t], g)
        return thunk

    mgf, npf = getattr(mg, u), getattr(np, u)

    def out_t(f):
        def inner(x):
            t = mg.tensor(np.zeros(shape))
            return f(x, out=t)
        return inner

    S = [("mg.%s(x)" % u, sp(mgf)), ("np.%s(x)" % u, sp(npf)), ("mg.%s(x, out=Tensor)" % u, sp(out_t(mgf))), ("np.%s(x, out=Tensor)" % u, sp(out_t(npf))),
         ("mg.%s(x, out=ndarray)" % u, sp(lambda x: mgf(x, out=np.zeros(shape))))]
    if u == "negative":
        S.append(("-x", sp(operator.neg)))
    if u == "positive":
        S.append(("+x", sp(operator.pos)))
    if u == "absolute":
        S.append(("mg.abs(x)", sp(mg.abs)))
        S.append(("np.abs(x)", sp(np.abs)))
    if u == "square":
        S.append(("x ** 2", sp(lambda x: x ** 2)))
    return run_spellings(S)


def check_R(cell):
    import mygrad as mg

    _, r, shape, axis, kd = cell
    X = vals(shape, 4)
    kw = {}
    if axis is not None or r in ("cumsum", "cumprod"):
        kw["axis"] = axis
    if kd:
        kw["keepdims"] = True
    oshape = np.shape(getattr(np, r)(X, **kw))
    g = catalogue.gtable(oshape)

    def sp(f):
        def thunk():
            t = mg.tensor(X)
            return summarize(f(t), [t], g)
        return thunk

    S = [("mg.%s(x, ...)" % r, sp(lambda t: getattr(mg, r)(t, **kw))), ("np.%s(x, ...)" % r, sp(lambda t: getattr(np, r)(t, **kw))),
         ("x.%s(...)" % r, sp(lambda t: getattr(t, r)(**kw)))]
    if r in ("max", "min"):
        S.append(("np.a%s" % r, sp(lambda t: getattr(np, "a" + r)(t, **kw))))
        S.append(("mg.a%s" % r, sp(lambda t: getattr(mg, "a" + r)(t, **kw))))
    return run_spellings(S)


def check_M(cell):
    import mygrad as mg

    m = cell[1]
    X = vals((2, 3), 1)
    X3 = vals((2, 1, 3), 2)

    def sp(f, src=X):
        def thunk():
            t = mg.tensor(src)
            out = f(t)
            return summarize(out, [t], catalogue.gtable(out.shape))
        return thunk

    table = {
        "reshape": [("mg.reshape", sp(lambda t: mg.reshape(t, (3, 2)))), ("np.reshape", sp(lambda t: np.reshape(t, (3, 2)))), ("x.reshape(tuple)", sp(lambda t: t.reshape((3, 2)))),
                    ("x.reshape(*ints)", sp(lambda t: t.reshape(3, 2))), ("x.reshape(-1, 2)", sp(lambda t: t.reshape(-1, 2)))],
        "transpose": [("mg.transpose", sp(lambda t: mg.transpose(t))), ("np.transpose", sp(lambda t: np.transpose(t))), ("x.transpose()", sp(lambda t: t.transpose())), ("x.T", sp(lambda t: t.T)),
                      ("x.transpose(1, 0)", sp(lambda t: t.transpose(1, 0))), ("x.transpose((1, 0))", sp(lambda t: t.transpose((1, 0)))), ("swapaxes", sp(lambda t: t.swapaxes(0, 1)))],
        "T": [("x.T", sp(lambda t: t.T, X3)), ("mg.transpose", sp(lambda t: mg.transpose(t), X3)), ("np.transpose(x, (2,1,0))", sp(lambda t: np.transpose(t, (2, 1, 0)), X3)),
              ("moveaxis", sp(lambda t: mg.moveaxis(t, (0, 1, 2), (2, 1, 0)), X3))],
        "squeeze": [("mg.squeeze", sp(lambda t: mg.squeeze(t), X3)), ("np.squeeze", sp(lambda t: np.squeeze(t), X3)), ("x.squeeze()", sp(lambda t: t.squeeze(), X3)),
                    ("x.squeeze(1)", sp(lambda t: t.squeeze(1), X3)), ("x[:, 0]", sp(lambda t: t[:, 0], X3))],
        "ravel": [("mg.ravel", sp(lambda t: mg.ravel(t))), ("np.ravel", sp(lambda t: np.ravel(t))), ("x.ravel()", sp(lambda t: t.ravel())), ("x.reshape(-1)", sp(lambda t: t.reshape(-1)))],
        "flatten_vs_ravel": [("x.flatten()", sp(lambda t: t.flatten())), ("mg.ravel(+x)", sp(lambda t: mg.ravel(t) + 0.0)), ],
        "swapaxes": [("mg.swapaxes", sp(lambda t: mg.swapaxes(t, 0, 2), X3)), ("np.swapaxes", sp(lambda t: np.swapaxes(t, 0, 2), X3)), ("x.swapaxes", sp(lambda t: t.swapaxes(0, 2), X3)),
                     ("x.swapaxes(-3, -1)", sp(lambda t: t.swapaxes(-3, -1), X3))],
        "moveaxis": [("mg.moveaxis", sp(lambda t: mg.moveaxis(t, 0, -1), X3)), ("np.moveaxis", sp(lambda t: np.moveaxis(t, 0, -1), X3)), ("x.moveaxis", sp(lambda t: t.moveaxis(0, -1), X3)),
                     ("transpose(1,2,0)", sp(lambda t: t.transpose(1, 2, 0), X3))],
        "expand_dims": [("mg.expand_dims", sp(lambda t: mg.expand_dims(t, 1))), ("np.expand_dims", sp(lambda t: np.expand_dims(t, 1))), ("x[:, None]", sp(lambda t: t[:, None])),
                        ("x.reshape(2,1,3)", sp(lambda t: t.reshape(2, 1, 3)))],
        "clip": [("mg.clip", sp(lambda t: mg.clip(t, -0.5, 0.75))), ("np.clip", sp(lambda t: np.clip(t, -0.5, 0.75))), ("x.clip", sp(lambda t: t.clip(-0.5, 0.75))),
                 ("minimum(maximum())", sp(lambda t: mg.minimum(mg.maximum(t, -0.5), 0.75)))],
        "getitem": [("x[1]", sp(lambda t: t[1])), ("x[1, :]", sp(lambda t: t[1, :])), ("x[1, ...]", sp(lambda t: t[1, ...])), ("x[-1]", sp(lambda t: t[-1]))],
        "where": [("mg.where", sp(lambda t: mg.where(X > 0, t, 2.0))), ("np.where", sp(lambda t: np.where(X > 0, t, 2.0)))],
        "std_pos": [("mg.std(x, 0, 1)", sp(lambda t: mg.std(t, 0, 1))), ("np.std(x, axis=0, ddof=1)", sp(lambda t: np.std(t, axis=0, ddof=1))), ("x.std(0, 1)", sp(lambda t: t.std(0, 1))),
                    ("x.std(axis=0, ddof=1)", sp(lambda t: t.std(axis=0, ddof=1)))],
        "var_pos": [("mg.var(x, 0, 1, True)", sp(lambda t: mg.var(t, 0, 1, True))), ("np.var(x, axis=0, ddof=1, keepdims=True)", sp(lambda t: np.var(t, axis=0, ddof=1, keepdims=True))),
                    ("x.var(0, 1, True)", sp(lambda t: t.var(0, 1, True)))],
        "sum_pos": [("mg.sum(x, 1, True)", sp(lambda t: mg.sum(t, 1, True))), ("x.sum(1, True)", sp(lambda t: t.sum(1, True))), ("np.sum(x, axis=1, keepdims=True)", sp(lambda t: np.sum(t, axis=1, keepdims=True)))],
        "mean_pos": [("mg.mean(x, 1, True)", sp(lambda t: mg.mean(t, 1, True))), ("x.mean(1, True)", sp(lambda t: t.mean(1, True))), ("np.mean(x, axis=1, keepdims=True)", sp(lambda t: np.mean(t, axis=1, keepdims=True)))],
        "max_pos": [("mg.max(x, 1, True)", sp(lambda t: mg.max(t, 1, True))), ("x.max(1, True)", sp(lambda t: t.max(1, True))), ("x.max(axis=1, keepdims=True)", sp(lambda t: t.max(axis=1, keepdims=True)))],
        "prod_pos": [("mg.prod(x, 1, True)", sp(lambda t: mg.prod(t, 1, True))), ("x.prod(1, True)", sp(lambda t: t.prod(1, True))), ("x.prod(axis=1, keepdims=True)", sp(lambda t: t.prod(axis=1, keepdims=True)))],
        "einsum": [("mg.einsum", sp(lambda t: mg.einsum("ij->j", t))), ("np.einsum", sp(lambda t: np.einsum("ij->j", t))), ("sum(axis=0)", sp(lambda t: t.sum(axis=0)))],
    }
    return run_spellings(table[m])


def check_K(cell):
    import mygrad as mg

    _, c, const, form = cell
    npf = getattr(np, c)
    nin = npf.nin
    X = np.array([1.5, -2.25, 3.0])
    Y = np.array([2.0, 0.75, -1.5])
    cx = const in (True, "first_only", "out_only")
    cy = const in (True, "second_only", "out_only")
    if nin == 1 and const in ("first_only", "second_only"):
        return ("skip", "unary")
    xt, yt = mg.tensor(X, constant=cx), mg.tensor(Y, constant=cy)
    kw = {}
    if const == "out_only":
        if c == "divmod":
            return ("skip", "two outputs")
        kw["out"] = mg.tensor(np.zeros(3), constant=False)  # a non-constant tensor as out= target
    if form == "np":
        f = (lambda: npf(xt, **kw)) if nin == 1 else (lambda: npf(xt, yt, **kw))
    elif form == "mg":
        if not hasattr(mg, c):
            return ("skip", "no mygrad function of that name")
        f = (lambda: getattr(mg, c)(xt, **kw)) if nin == 1 else (lambda: getattr(mg, c)(xt, yt, **kw))
    else:
        opf = {"floor_divide": operator.floordiv, "remainder": operator.mod, "mod": operator.mod, "divmod": divmod}.get(c)
        if opf is None or kw or not hasattr(mg.Tensor, {"floor_divide": "__floordiv__", "remainder": "__mod__", "mod": "__mod__", "divmod": "__divmod__"}[c]):
            return ("skip", "no operator spelling defined on Tensor")
        f = lambda: opf(xt, yt)
    try:
        r = f()
        err = None
    except Exception as e:
        err = base.exc_brief(e)
        del e
    if const is not True:
        return None if err is not None else ("non_constant_accepted", "%s with a non-constant tensor among its operands/out returned %s instead of raising" % (c, type(r).__name__))
    if err is not None:
        return ("exception", "%s on constant tensors raised %s: %s" % ((c,) + err))
    ref = npf(X) if nin == 1 else npf(X, Y)
    rs = r if isinstance(r, tuple) else (r,)
    refs = ref if isinstance(ref, tuple) else (ref,)
    for a, b_ in zip(rs, refs):
        if isinstance(a, mg.Tensor):
            return ("type", "%s returned a Tensor" % c)
        if not np.array_equal(np.asarray(a), b_):
            return ("value", "%s differs from numpy" % c)
    return None


def check_N(cell):
    import mygrad as mg

    b = cell[1]
    npf = getattr(np, b)
    X, Y = np.array([1.5, np.nan, -3.0, np.inf]), np.array([1.5, 0.0, 2.0, -1.0])
    for const in (False, True):
        xt, yt = mg.tensor(X, constant=const), mg.tensor(Y, constant=const)
        args_t, args_a = ((xt,), (X,)) if npf.nin == 1 else ((xt, yt), (X, Y))
        for label, f in (("np", lambda: npf(*args_t)), ("mg", (lambda: getattr(mg, b)(*args_t)) if hasattr(mg, b) else None),
                         ("mixed", (lambda: npf(xt, Y)) if npf.nin == 2 else None)):
            if f is None:
                continue
            try:
                r = f()
            except Exception as e:
                eb = base.exc_brief(e)
                del e
                return ("exception", "%s.%s on tensors raised %s: %s" % ((label, b) + eb))
            if isinstance(r, mg.Tensor):
                return ("type", "%s.%s returned a Tensor" % (label, b))
            if not np.array_equal(np.asarray(r), npf(*args_a)):
                return ("value", "%s.%s differs from numpy" % (label, b))
    return None


CMP_OPS = {"lt": "less", "le": "less_equal", "gt": "greater", "ge": "greater_equal", "eq": "equal", "ne": "not_equal"}


def check_NO(cell):
    """comparison operators (incl. reflected forms, scalars and arrays on either side) against the NumPy function on the arrays and on
    the tensors; operands contain NaN, +-inf, ties and signed zeros"""
    import mygrad as mg

    _, o, kinds, dt = cell
    if dt == "int64":
        X, Y = np.array([1, 2, -3, 4, 0]), np.array([1, -2, 2, 5, 0])
        sc = 2
    else:
        X = np.array([1.5, np.nan, -3.0, np.inf, 2.0, np.nan, -0.0, -np.inf, 0.1], dtype=dt)
        Y = np.array([1.5, 0.0, np.nan, np.inf, 2.5, np.nan, 0.0, 1.0, 0.1], dtype=dt)
        sc = float("nan")
    f = getattr(operator, o)
    npf = getattr(np, CMP_OPS[o])

    def mk(v, k):
        return mg.tensor(v) if k == "t" else mg.tensor(v, constant=True) if k == "tc" else v.copy() if k == "a" else sc

    for scv in ([sc, 2.0, 1.5, 0.1] if "s" in kinds else [None]):  # 0.1: not representable in float32; an element equals its rounding
        sc = scv
        a, b = mk(X, kinds[0]), mk(Y, kinds[1])
        ra, rb = (X if kinds[0] != "s" else sc), (Y if kinds[1] != "s" else sc)
        ref = npf(ra, rb)
        for label, thunk in (("a <op> b", lambda: f(a, b)), ("np.%s(a, b)" % CMP_OPS[o], lambda: npf(a, b)), ("mg.%s(a, b)" % CMP_OPS[o], lambda: getattr(mg, CMP_OPS[o])(a, b))):
            try:
                with np.errstate(all="ignore"):
                    r = thunk()
            except Exception as e:
                eb = base.exc_brief(e)
                del e
                return ("exception", "%s raised %s: %s" % ((label,) + eb))
            if isinstance(r, mg.Tensor):
                return ("type", "%s returned a Tensor" % label)
            r = np.asarray(r)
            if r.dtype != ref.dtype or r.shape != ref.shape or not np.array_equal(r, ref):
                return ("value", "%s (operand kinds %r, scalar %r): %s, numpy on the arrays: %s" % (label, kinds, sc, r, ref))
    return None


def check_F(cell):
    import mygrad as mg

    f = cell[1]
    npf = getattr(np, f)
    X, Y = np.array([1.0, 2.0, 3.0]), np.array([1.0, 2.0, 3.0 + 1e-12])
    xt, yt = mg.tensor(X), mg.tensor(Y)
    calls = {
        "allclose": (lambda: npf(xt, yt), lambda: npf(X, Y)), "isclose": (lambda: npf(xt, yt), lambda: npf(X, Y)),
        "may_share_memory": (lambda: npf(xt, xt[1:]), lambda: True), "shares_memory": (lambda: npf(xt, xt[1:]), lambda: True),
        "result_type": (lambda: npf(xt, np.float32(1)), lambda: npf(X, np.float32(1))), "min_scalar_type": (lambda: npf(mg.tensor(3)), lambda: npf(np.array(3))),
        "can_cast": (lambda: npf(xt, np.float32), lambda: npf(X, np.float32)), "shape": (lambda: npf(xt), lambda: npf(X)),
        "bincount": (lambda: npf(mg.tensor([0, 1, 1, 3])), lambda: npf(np.array([0, 1, 1, 3]))),
        "copyto": (lambda: (lambda d: (npf(d, xt), d)[1])(np.zeros(3)), lambda: X.copy()),
    }
    fm, fn = calls[f]
    try:
        r = fm()
    except Exception as e:
        eb = base.exc_brief(e)
        del e
        return ("exception", "np.%s on tensors raised %s: %s" % ((f,) + eb))
    if isinstance(r, mg.Tensor):
        return ("type", "np.%s returned a Tensor" % f)
    ref = fn()
    ok = np.array_equal(np.asarray(r), np.asarray(ref)) if not isinstance(ref, (np.dtype, type)) else r == ref
    return None if ok else ("value", "np.%s on tensors: %r, numpy: %r" % (f, r, ref))


def check(cell):
    return {"B": check_B, "BP": check_B, "U": check_U, "R": check_R, "M": check_M, "K": check_K, "N": check_N, "F": check_F, "NO": check_NO}[cell[0]](cell)


def nontrivial(cell):
    return True


def outcome(cell):
    return "ok:" + cell[0]


def signature(cell, f):
    return base.stable_hash((cell[0], cell[1], f[0], f[1][:50]))


def script(cell, f):
    return "# C11 cell %r\n# %s: %s\n" % (cell, f[0], f[1])


def plan(tier, seed):
    me = __import__("harness.C11", fromlist=["x"])
    return conf.make_plan(
        me, tier, seed, nchunks=32,
        rule="every (operation, operand shapes, operand kinds) cell, each run under all its spellings (function / NumPy function / method / operator / reflected / "
        "augmented / out=Tensor / out=ndarray) with fresh operands and the same seed gradient; plus every registered non-differentiable function and the "
        "rounding/modulo family x constant/non-constant x spelling, and the comparison operators (all operand kinds, NaN/inf/ties/signed zeros) vs the NumPy functions",
        bounds={"binary": list(BIN), "unary": UN, "reductions": RED},
        assumptions=["operand gradients compared after rounding to 12 decimals (different spellings may associate the same float operations differently)"],
    )


def replay(case):
    return conf.replay_cell(__import__("harness.C11", fromlist=["x"]), case)


def finalize(v):
    return conf.finalize_cell(__import__("harness.C11", fromlist=["x"]), v)


MATCHERS = {}
