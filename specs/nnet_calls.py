"""Small concrete calls of every nnet layer / activation / loss, shared by C02 C12 C14 C16.
Each entry: name -> builder(dtype) returning (inputs: dict name -> Tensor (non-constant float leaves),
extra: dict of non-tensor arguments, call: fn(**inputs) -> output Tensor)."""
import numpy as np

V = [0.5, -0.75, 1.25, -1.5, 1.75, 0.25, -0.375, 0.625, -1.125, 1.375, -0.875, 1.625, -0.625, 0.875, 0.4375, -1.3125,
     0.9375, -0.1875, 1.0625, -1.6875, 0.6875, 1.4375, -0.5625, 0.3125]


def vals(shape, off=0, dtype="float64", pos=False):
    n = int(np.prod(shape))
    a = np.array([V[(i * 5 + off) % len(V)] + 0.03125 * ((i + off) // len(V)) for i in range(n)]).reshape(shape)
    if pos:
        a = np.abs(a) + 0.25
    return a.astype(dtype)


def catalogue():
    import mygrad as mg
    import mygrad.nnet as nn
    from mygrad.nnet import activations as A
    from mygrad.nnet import layers as L
    from mygrad.nnet import losses as Lo

    def T(shape, off=0, dtype="float64", **kw):
        return mg.tensor(vals(shape, off, dtype, **kw))

    y2 = np.array([2, 0])
    cat = {}
    cat["conv_nd_1d"] = lambda dt: (dict(x=T((1, 1, 4), 0, dt), w=T((1, 1, 2), 3, dt)), lambda x, w: L.conv_nd(x, w, stride=1))
    cat["conv_nd_2d"] = lambda dt: (dict(x=T((1, 2, 3, 3), 0, dt), w=T((2, 2, 2, 2), 7, dt)), lambda x, w: L.conv_nd(x, w, stride=1, padding=0))
    cat["conv_nd_pad_dil"] = lambda dt: (dict(x=T((2, 1, 5), 0, dt), w=T((1, 1, 2), 3, dt)), lambda x, w: L.conv_nd(x, w, stride=2, padding=1, dilation=2))
    cat["max_pool"] = lambda dt: (dict(x=T((1, 1, 4), 0, dt)), lambda x: L.max_pool(x, (2,), 2))
    cat["max_pool_2d"] = lambda dt: (dict(x=T((1, 1, 4, 2), 2, dt)), lambda x: L.max_pool(x, (2, 2), (2, 2)))
    cat["batchnorm"] = lambda dt: (dict(x=T((3, 2), 0, dt), gamma=T((2,), 4, dt), beta=T((2,), 9, dt)), lambda x, gamma, beta: L.batchnorm(x, gamma=gamma, beta=beta, eps=1e-5))
    cat["batchnorm_plain"] = lambda dt: (dict(x=T((3, 2, 2), 1, dt)), lambda x: L.batchnorm(x, eps=1e-5))
    cat["softmax"] = lambda dt: (dict(x=T((2, 3), 0, dt)), lambda x: A.softmax(x))
    cat["softmax_axis0"] = lambda dt: (dict(x=T((2, 3), 0, dt)), lambda x: A.softmax(x, axis=0))
    cat["logsoftmax"] = lambda dt: (dict(x=T((2, 3), 2, dt)), lambda x: A.logsoftmax(x))
    cat["elu"] = lambda dt: (dict(x=T((4,), 0, dt)), lambda x: A.elu(x, alpha=0.5))
    cat["glu"] = lambda dt: (dict(x=T((2, 4), 0, dt)), lambda x: A.glu(x, axis=-1))
    cat["hard_tanh"] = lambda dt: (dict(x=T((6,), 0, dt)), lambda x: A.hard_tanh(x, lower_bound=-1.0, upper_bound=1.0))
    cat["leaky_relu"] = lambda dt: (dict(x=T((4,), 0, dt)), lambda x: A.leaky_relu(x, slope=0.125))
    cat["relu"] = lambda dt: (dict(x=T((4,), 0, dt)), lambda x: A.relu(x))
    cat["selu"] = lambda dt: (dict(x=T((4,), 0, dt)), lambda x: A.selu(x))
    cat["sigmoid"] = lambda dt: (dict(x=T((4,), 0, dt)), lambda x: A.sigmoid(x))
    cat["soft_sign"] = lambda dt: (dict(x=T((4,), 0, dt)), lambda x: A.soft_sign(x))
    cat["tanh"] = lambda dt: (dict(x=T((4,), 0, dt)), lambda x: A.tanh(x))
    cat["softmax_crossentropy"] = lambda dt: (dict(x=T((2, 3), 0, dt)), lambda x: Lo.softmax_crossentropy(x, y2))
    cat["negative_log_likelihood"] = lambda dt: (dict(x=T((2, 3), 0, dt)), lambda x: Lo.negative_log_likelihood(x, y2))
    cat["negative_log_likelihood_w"] = lambda dt: (dict(x=T((2, 3), 0, dt), w=T((3,), 1, dt, pos=True)), lambda x, w: Lo.negative_log_likelihood(x, y2, weights=w))
    cat["multiclass_hinge"] = lambda dt: (dict(x=T((2, 3), 0, dt)), lambda x: Lo.multiclass_hinge(x, y2, hinge=1.0))
    cat["margin_ranking_loss"] = lambda dt: (dict(x1=T((3,), 0, dt), x2=T((3,), 5, dt)), lambda x1, x2: Lo.margin_ranking_loss(x1, x2, np.array([1, -1, 1]), margin=0.5))
    cat["focal_loss"] = lambda dt: (dict(p=mg.tensor((vals((2, 3), 0, "float64", pos=True) / vals((2, 3), 0, "float64", pos=True).sum(1, keepdims=True)).astype(dt))), lambda p: Lo.focal_loss(p, y2, alpha=0.75, gamma=2.0))
    cat["softmax_focal_loss"] = lambda dt: (dict(x=T((2, 3), 0, dt)), lambda x: Lo.softmax_focal_loss(x, y2, alpha=0.75, gamma=2.0))

    def gru(dt, s0=False):
        C, D, N, Tn = 2, 2, 1, 2
        ins = dict(X=T((Tn, N, C), 0, dt))
        o = 3
        for g in "zrh":
            ins["U" + g] = T((C, D), o, dt)
            ins["W" + g] = T((D, D), o + 2, dt)
            ins["b" + g] = T((D,), o + 5, dt)
            o += 7
        if s0:
            s0v = vals((N, D), 11, dt)  # gru accepts only a constant initial hidden state
            return ins, lambda X, Uz, Wz, bz, Ur, Wr, br, Uh, Wh, bh: L.gru(X, Uz, Wz, bz, Ur, Wr, br, Uh, Wh, bh, s0=s0v)
        return ins, lambda X, Uz, Wz, bz, Ur, Wr, br, Uh, Wh, bh: L.gru(X, Uz, Wz, bz, Ur, Wr, br, Uh, Wh, bh)

    cat["gru"] = lambda dt: gru(dt)
    cat["gru_s0"] = lambda dt: gru(dt, True)
    return cat


NAMES = ["conv_nd_1d", "conv_nd_2d", "conv_nd_pad_dil", "max_pool", "max_pool_2d", "batchnorm", "batchnorm_plain", "softmax", "softmax_axis0",
         "logsoftmax", "elu", "glu", "hard_tanh", "leaky_relu", "relu", "selu", "sigmoid", "soft_sign", "tanh", "softmax_crossentropy",
         "negative_log_likelihood", "negative_log_likelihood_w", "multiclass_hinge", "margin_ranking_loss", "focal_loss", "softmax_focal_loss",
         "gru", "gru_s0"]


# ------------------------------------------------------------------ complex-safe functional models (for C02)
def _relu(x):
    return np.where(np.real(x) > 0, x, 0.0 * x)


def _sig(x):
    return 1.0 / (1.0 + np.exp(-x))


def _softmax(x, axis=-1):
    e = np.exp(x)
    return e / np.sum(e, axis=axis, keepdims=True)


def _logsoftmax(x, axis=-1):
    return x - np.log(np.sum(np.exp(x), axis=axis, keepdims=True))


def _conv(x, w, stride, padding, dilation):
    k = x.ndim - 2
    s = (stride,) * k if isinstance(stride, int) else tuple(stride)
    p = (padding,) * k if isinstance(padding, int) else tuple(padding)
    d = (dilation,) * k if isinstance(dilation, int) else tuple(dilation)
    xp = np.pad(x, ((0, 0), (0, 0)) + tuple((pi, pi) for pi in p))
    grid = tuple((xp.shape[2 + i] - ((w.shape[2 + i] - 1) * d[i] + 1)) // s[i] + 1 for i in range(k))
    out = np.zeros((x.shape[0], w.shape[0]) + grid, dtype=np.result_type(x, w))
    for g in np.ndindex(*grid):
        for wi in np.ndindex(*w.shape[2:]):
            idx = tuple(g[i] * s[i] + wi[i] * d[i] for i in range(k))
            out[(slice(None), slice(None)) + g] += np.einsum("nc,fc->nf", xp[(slice(None), slice(None)) + idx], w[(slice(None), slice(None)) + wi])
    return out


def _maxpool(x, pool, stride):
    k = len(pool)
    s = (stride,) * k if isinstance(stride, int) else tuple(stride)
    lead = x.shape[: x.ndim - k]
    grid = tuple((x.shape[x.ndim - k + i] - pool[i]) // s[i] + 1 for i in range(k))
    out = np.zeros(lead + grid, dtype=x.dtype)
    for n in np.ndindex(*lead):
        for g in np.ndindex(*grid):
            cands = [x[n + tuple(g[i] * s[i] + wi[i] for i in range(k))] for wi in np.ndindex(*pool)]
            out[n + g] = cands[int(np.argmax([c.real for c in cands]))]
    return out


def _batchnorm(x, gamma=None, beta=None, eps=1e-5):
    ax = tuple(i for i in range(x.ndim) if i != 1)
    shp = [1] * x.ndim
    shp[1] = x.shape[1]
    mu = np.mean(x, axis=ax, keepdims=True)
    var = np.mean((x - mu) ** 2, axis=ax, keepdims=True)
    y = (x - mu) / np.sqrt(var + eps)
    if gamma is not None:
        y = y * gamma.reshape(shp)
    if beta is not None:
        y = y + beta.reshape(shp)
    return y


def _gru(X, Uz, Wz, bz, Ur, Wr, br, Uh, Wh, bh, s0=None):
    T, N, C = X.shape
    D = bz.shape[0]
    dt = np.result_type(X, Uz, Wz, bz, Ur, Wr, br, Uh, Wh, bh)
    S = [np.zeros((N, D), dtype=dt) if s0 is None else np.asarray(s0, dtype=dt)]
    for t in range(T):
        prev = S[-1]
        z = _sig(X[t] @ Uz + prev @ Wz + bz)
        r = _sig(X[t] @ Ur + prev @ Wr + br)
        h = np.tanh(X[t] @ Uh + (r * prev) @ Wh + bh)
        S.append((1 - z) * h + z * prev)
    return np.stack(S)


def shadows():
    y2 = np.array([2, 0])
    rows = np.arange(2)

    def focal(p, alpha, gamma):
        pc = p[rows, y2]
        return -alpha * (1 - pc) ** gamma * np.log(pc)

    def hinge(x, h=1.0):
        m = x - x[rows, y2][:, None] + h
        m = np.where(np.real(m) > 0, m, 0.0 * m)
        m[rows, y2] = 0.0
        return np.sum(m) / x.shape[0]

    def mrl(x1, x2):
        y = np.array([1, -1, 1])
        m = 0.5 - y * (x1 - x2)
        return np.mean(np.where(np.real(m) > 0, m, 0.0 * m))

    return {
        "conv_nd_1d": lambda x, w: _conv(x, w, 1, 0, 1),
        "conv_nd_2d": lambda x, w: _conv(x, w, 1, 0, 1),
        "conv_nd_pad_dil": lambda x, w: _conv(x, w, 2, 1, 2),
        "max_pool": lambda x: _maxpool(x, (2,), 2),
        "max_pool_2d": lambda x: _maxpool(x, (2, 2), (2, 2)),
        "batchnorm": lambda x, gamma, beta: _batchnorm(x, gamma, beta),
        "batchnorm_plain": lambda x: _batchnorm(x),
        "softmax": lambda x: _softmax(x),
        "softmax_axis0": lambda x: _softmax(x, 0),
        "logsoftmax": lambda x: _logsoftmax(x),
        "elu": lambda x: np.where(np.real(x) > 0, x, 0.5 * (np.exp(x) - 1)),
        "glu": lambda x: x[..., :2] * _sig(x[..., 2:]),
        "hard_tanh": lambda x: np.where(np.real(x) < -1, -1.0 + 0 * x, np.where(np.real(x) > 1, 1.0 + 0 * x, x)),
        "leaky_relu": lambda x: np.where(np.real(x) > 0, x, 0.125 * x),
        "relu": _relu,
        "selu": lambda x: 1.0507009873554804934193349852946 * np.where(np.real(x) > 0, x, 1.6732632423543772848170429916717 * (np.exp(x) - 1)),
        "sigmoid": _sig,
        "soft_sign": lambda x: x / (1 + np.where(np.real(x) < 0, -x, x)),
        "tanh": np.tanh,
        "softmax_crossentropy": lambda x: -np.sum(_logsoftmax(x)[rows, y2]) / 2,
        "negative_log_likelihood": lambda x: -np.sum(x[rows, y2]) / 2,
        "negative_log_likelihood_w": None,  # weights are documented as constants
        "multiclass_hinge": hinge,
        "margin_ranking_loss": mrl,
        "focal_loss": lambda p: focal(p, 0.75, 2.0),
        "softmax_focal_loss": lambda x: focal(_softmax(x), 0.75, 2.0),
        "gru": _gru,
        "gru_s0": lambda *a: _gru(*a, s0=vals((1, 2), 11, "float64")),
    }
