"""Operation specs shared by C02 (VJP), C03 (NumPy parity), C11 (spellings), C12 (no modification / aliasing).

A *case* is a dict:
  name      label
  operands  list of float64 ndarrays (domain-respecting values, possibly non-contiguous)
  mg        callable(*tensors_or_arrays) -> Tensor        (the MyGrad call, options bound in)
  shadow    callable(*arrays) -> ndarray                  (complex-safe functional model of the forward)
  np        callable(*arrays) -> ndarray or None          (the NumPy namesake with the same options)
  conv      optional {operand index: expected gradient}   (documented convention at a kink)
  mask      optional boolean where-mask (output elements outside it carry no gradient)
Cases are produced by deterministic generators; `all_cases(tier)` chains them."""
import itertools

import numpy as np

V = [0.5, -0.75, 1.25, -1.5, 1.75, 0.25, -0.375, 0.625, -1.125, 1.375, -0.875, 1.625, -0.625, 0.875, 0.4375, -1.3125,
     0.9375, -0.1875, 1.0625, -1.6875, 0.6875, 1.4375, -0.5625, 0.3125]


def vals(shape, off=0, kind="any"):
    n = int(np.prod(shape))
    a = np.array([V[(i * 5 + off) % len(V)] + 0.03125 * ((i + off) // len(V)) for i in range(n)], dtype=np.float64).reshape(shape)
    if kind == "pos":
        a = np.abs(a) + 0.25
    elif kind == "unit":  # (-0.9, 0.9)
        a = a / 2.25
    elif kind == "gt1":
        a = np.abs(a) + 1.25
    elif kind == "small":  # |x| < 1.25, away from 0
        a = np.sign(a) * (np.abs(a) % 1.0 + 0.125)
    elif kind == "gtm1":
        a = np.abs(a) - 0.5
    elif kind == "big":  # |x| > 1.25
        a = np.sign(a) * (np.abs(a) + 1.25)
    return a


def layout(a, how):
    """same values, different memory layout"""
    if how == "C" or a.ndim == 0:
        return a
    if how == "T":
        if a.ndim < 2:
            return None
        return np.ascontiguousarray(a.T).T  # F-ordered
    if how == "strided":
        big = np.zeros(tuple(2 * s for s in a.shape))
        sl = tuple(slice(None, None, 2) for _ in a.shape)
        big[sl] = a
        return big[sl]
    raise KeyError(how)


def gtable(shape, off=3):
    n = int(np.prod(shape))
    return np.array([V[(i * 7 + off) % len(V)] * 1.5 + 0.25 for i in range(n)], dtype=np.float64).reshape(shape)


def T_(name):
    import mygrad as mg

    return getattr(mg, name)


# ------------------------------------------------------------------ complex-safe shadows
def c_abs(x):
    return np.where(np.real(x) < 0, -x, x)


def c_cbrt(x):
    x = np.asarray(x)
    return np.where(np.real(x) < 0, -((-x) ** (1.0 / 3)), x ** (1.0 / 3))


def c_max(a, b):
    return np.where(np.real(a) > np.real(b), a, b)


def c_min(a, b):
    return np.where(np.real(a) < np.real(b), a, b)


def c_arctan2(a, b):
    # arctan(a/b) plus the branch constant of arctan2 (piecewise constant, so the complex step sees the same derivative)
    return np.arctan(a / b) + np.where(np.real(b) < 0, np.where(np.real(a) >= 0, np.pi, -np.pi), 0.0)


def c_logaddexp(a, b):
    return np.log(np.exp(a) + np.exp(b))


def c_logaddexp2(a, b):
    return np.log(2.0 ** a + 2.0 ** b) / np.log(2.0)


def c_var(x, axis=None, ddof=0, keepdims=False):
    x = np.asarray(x)
    n = x.size if axis is None else int(np.prod([x.shape[a] for a in (axis if isinstance(axis, tuple) else (axis,))]))
    m = np.mean(x, axis=axis, keepdims=True)
    return np.sum((x - m) ** 2, axis=axis, keepdims=keepdims) / (n - ddof)


def c_std(x, axis=None, ddof=0, keepdims=False):
    return np.sqrt(c_var(x, axis, ddof, keepdims))


def c_amax(x, axis=None, keepdims=False):
    x = np.asarray(x)
    if axis is None:
        r = x.reshape(-1)[np.argmax(x.real)]
        return r.reshape((1,) * x.ndim) if keepdims else r
    if isinstance(axis, tuple):
        if len(axis) == 0:
            return x
        ax = tuple(a % x.ndim for a in axis)
        rest = [i for i in range(x.ndim) if i not in ax]
        xt = np.transpose(x, rest + list(ax)).reshape([x.shape[i] for i in rest] + [-1])
        idx = np.argmax(xt.real, axis=-1)
        r = np.take_along_axis(xt, idx[..., None], -1)[..., 0]
        if keepdims:
            shp = [1 if i in ax else x.shape[i] for i in range(x.ndim)]
            r = r.reshape(shp)
        return r
    idx = np.argmax(x.real, axis=axis)
    r = np.take_along_axis(x, np.expand_dims(idx, axis), axis)
    return r if keepdims else np.squeeze(r, axis)


def c_amin(x, axis=None, keepdims=False):
    return -c_amax(-np.asarray(x), axis, keepdims)


UNARY_SHADOW = {"absolute": c_abs, "cbrt": c_cbrt}
BINARY_SHADOW = {"maximum": c_max, "minimum": c_min, "arctan2": c_arctan2, "logaddexp": c_logaddexp, "logaddexp2": c_logaddexp2}
UNARY_DOMAIN = {"log": "pos", "log2": "pos", "log10": "pos", "sqrt": "pos", "log1p": "gtm1", "arcsin": "unit", "arccos": "unit", "arctanh": "unit",
                "arccosh": "gt1", "tan": "small", "reciprocal": "any", "cbrt": "any", "absolute": "any"}

SHAPES1 = [(), (1,), (3,), (2, 3), (0,), (2, 0)]


def masks_for(shape):
    n = int(np.prod(shape))
    out = [True]
    if n == 0:
        return out
    if n <= 3:
        for bits in itertools.product((False, True), repeat=n):
            out.append(np.array(bits).reshape(shape))
    else:
        out.append((np.arange(n).reshape(shape) % 2 == 0))
        out.append(np.zeros(shape, dtype=bool))
        if len(shape) == 2:
            out.append(np.array([True, False, True])[: shape[1]])  # broadcast mask
    return out


# ------------------------------------------------------------------ generators
def unary_ufunc_cases(tier):
    import mygrad as mg
    import mygrad.tensor_base as tb

    for uf in sorted(tb._REGISTERED_UFUNC, key=lambda u: u.__name__):
        if uf.nin != 1:
            continue
        name = uf.__name__
        mgf = tb._REGISTERED_UFUNC[uf]
        sh = UNARY_SHADOW.get(name, uf)
        for shape in SHAPES1:
            for lay in ("C", "T", "strided"):
                x = layout(vals(shape, 1, UNARY_DOMAIN.get(name, "any")), lay)
                if x is None or (lay != "C" and x.ndim == 0):
                    continue
                for mi, mask in enumerate(masks_for(shape) if lay == "C" else [True]):
                    for dt in (None, "float32", "float64") if (mask is True and lay == "C") else (None,):
                        kw = {}
                        if mask is not True:
                            kw["where"] = mask
                        if dt:
                            kw["dtype"] = dt
                        yield dict(name="%s%s %s where#%d dtype=%s" % (name, shape, lay, mi, dt), op=name, operands=[x],
                                   mg=(lambda mgf, kw: lambda a: mgf(a, **kw))(mgf, kw),
                                   shadow=(lambda sh, mask: lambda a: (sh(a) if mask is True else np.where(mask, sh(a), 0.0)))(sh, mask),
                                   np=(lambda uf, kw: lambda a: uf(a, **kw))(uf, kw) if mask is True else None,
                                   mask=None if mask is True else mask, dtype=dt)
    # documented conventions at kinks
    x0 = np.array([0.0, -1.5, 0.0, 2.0])
    yield dict(name="absolute at 0 (nan_to_num default)", op="absolute", operands=[x0], mg=lambda a: mg.abs(a), shadow=c_abs, np=np.abs,
               conv={0: np.array([0.0, -1.0, 0.0, 1.0])})
    for fn, edge in (("arcsin", np.array([1.0, -1.0, 0.5])), ("arccos", np.array([1.0, -1.0, 0.5]))):
        npf = getattr(np, fn)
        d = {"arcsin": lambda v: 1 / np.sqrt(1 - v * v), "arccos": lambda v: -1 / np.sqrt(1 - v * v)}[fn](np.array([0.5]))[0]
        yield dict(name=fn + " at +-1", op=fn, operands=[edge], mg=(lambda f: lambda a: f(a))(getattr(mg, fn)), shadow=npf, np=npf,
                   conv={0: np.array([0.0, 0.0, d])})


PAIRS = [((), ()), ((3,), (3,)), ((3,), ()), ((), (3,)), ((1,), (3,)), ((2, 3), (3,)), ((2, 3), (1, 3)), ((2, 1), (1, 3)), ((2, 3), (2, 3)),
         ((2, 3), (2, 1)), ((0,), (0,)), ((0,), ()), ((1, 3), (2, 1))]
BIN_DOMAIN = {"divide": ("any", "big"), "power": ("pos", "any"), "arctan2": ("any", "big")}


def binary_ufunc_cases(tier):
    import mygrad.tensor_base as tb

    for uf in sorted(tb._REGISTERED_UFUNC, key=lambda u: u.__name__):
        if uf.nin != 2 or uf.__name__ == "matmul":
            continue
        name = uf.__name__
        mgf = tb._REGISTERED_UFUNC[uf]
        sh = BINARY_SHADOW.get(name, uf)
        da, db = BIN_DOMAIN.get(name, ("any", "any"))
        for sa, sb in PAIRS:
            a, b = vals(sa, 1, da), vals(sb, 8, db)
            oshape = np.broadcast_shapes(sa, sb)
            for kinds in (("t", "t"), ("t", "a"), ("a", "t"), ("t", "s"), ("s", "t")):
                if ("s" in kinds) and (sa if kinds[0] == "s" else sb) != ():
                    continue
                for mi, mask in enumerate(masks_for(oshape)[:3]):
                    for dt in (None, "float32") if mask is True else (None,):
                        kw = {}
                        if mask is not True:
                            kw["where"] = mask
                        if dt:
                            kw["dtype"] = dt
                        yield dict(name="%s%s%s kinds=%s where#%d dtype=%s" % (name, sa, sb, "".join(kinds), mi, dt), op=name, operands=[a, b], kinds=kinds,
                                   mg=(lambda mgf, kw: lambda x, y: mgf(x, y, **kw))(mgf, kw),
                                   shadow=(lambda sh, mask: lambda x, y: (sh(x, y) if mask is True else np.where(mask, sh(x, y), 0.0)))(sh, mask),
                                   np=(lambda uf, kw: lambda x, y: uf(x, y, **kw))(uf, kw) if mask is True else None,
                                   mask=None if mask is True else mask, dtype=dt)
        # the same tensor as both operands
        for sa in ((3,), (2, 3), ()):
            a = vals(sa, 2, "pos" if name in ("power", "divide", "arctan2") else "any")
            if name in ("maximum", "minimum"):
                continue  # a tie everywhere: convention cell below
            yield dict(name="%s%s same tensor twice" % (name, sa), op=name, operands=[a], twice=True,
                       mg=(lambda mgf: lambda x: mgf(x, x))(mgf), shadow=(lambda sh: lambda x: sh(x, x))(sh), np=(lambda uf: lambda x: uf(x, x))(uf))
    import mygrad as mg

    # ties of maximum / minimum: zero gradient to both operands
    a = np.array([1.0, 2.0, -0.5])
    b = np.array([1.0, 0.5, -0.5])
    yield dict(name="maximum ties", op="maximum", operands=[a, b], mg=lambda x, y: mg.maximum(x, y), shadow=c_max, np=np.maximum,
               conv={0: np.array([0.0, 1.0, 0.0]), 1: np.array([0.0, 0.0, 0.0])}, gones=True)
    yield dict(name="minimum ties", op="minimum", operands=[a, b], mg=lambda x, y: mg.minimum(x, y), shadow=c_min, np=np.minimum,
               conv={0: np.array([0.0, 0.0, 0.0]), 1: np.array([0.0, 1.0, 0.0])}, gones=True)


def axes_for(ndim):
    out = [None]
    for a in range(-ndim, ndim):
        out.append(a)
    out.append(())
    for r in (2, 3):
        for combo in itertools.combinations(range(ndim), r):
            out.append(combo)
            out.append(tuple(-1 - c for c in combo))
    return out


def sequential_cases(tier):
    import mygrad as mg

    shapes = [(), (3,), (2, 3), (2, 1, 3)]
    table = {
        "sum": (np.sum, np.sum), "mean": (np.mean, np.mean), "prod": (np.prod, np.prod), "var": (np.var, c_var), "std": (np.std, c_std),
        "max": (np.max, c_amax), "min": (np.min, c_amin),
    }
    for name, (npf, sh) in table.items():
        mgf = getattr(mg, name)
        for shape in shapes:
            for axis in axes_for(len(shape)):
                if axis == () and name in ("max", "min", "var", "std", "mean"):
                    pass
                for keepdims in (False, True):
                    for ddof in ((0, 1) if name in ("var", "std") else (None,)):
                        x = vals(shape, 4)
                        lane = x.size if axis is None else int(np.prod([shape[a] for a in (axis if isinstance(axis, tuple) else (axis,))]))
                        if name in ("var", "std") and (lane - ddof <= 0 or (name == "std" and lane <= 1)):
                            continue  # degenerate lane: outside the differentiable domain
                        kw = dict(axis=axis, keepdims=keepdims)
                        skw = dict(axis=axis, keepdims=keepdims)
                        if ddof is not None:
                            kw["ddof"] = ddof
                            skw["ddof"] = ddof
                        for lay in ("C", "T"):
                            xx = layout(x, lay)
                            if xx is None:
                                continue
                            yield dict(name="%s%s axis=%r keepdims=%r ddof=%r %s" % (name, shape, axis, keepdims, ddof, lay), op=name, operands=[xx],
                                       mg=(lambda f, kw: lambda a: f(a, **kw))(mgf, kw), shadow=(lambda f, kw: lambda a: f(a, **kw))(sh, skw),
                                       np=(lambda f, kw: lambda a: f(a, **kw))(npf, kw))
    # products with zeros in the lane (0, 1, 2 zeros)
    for zeros in ((0,), (0, 2), (1,)):
        for axis in (None, 0, 1, -1, (0, 1)):
            x = vals((2, 3), 4)
            x.reshape(-1)[list(zeros)] = 0.0
            for fname in ("prod",):
                yield dict(name="prod(2,3) zeros at %r axis=%r" % (zeros, axis), op="prod", operands=[x], mg=(lambda ax: lambda a: mg.prod(a, axis=ax))(axis),
                           shadow=(lambda ax: lambda a: np.prod(a, axis=ax))(axis), np=(lambda ax: lambda a: np.prod(a, axis=ax))(axis))
    for zeros in ((), (1,), (0, 2), (1, 4)):
        for axis in (None, 0, 1, -1):
            x = vals((2, 3), 6)
            if zeros:
                x.reshape(-1)[list(zeros)] = 0.0
            yield dict(name="cumprod(2,3) zeros at %r axis=%r" % (zeros, axis), op="cumprod", operands=[x], mg=(lambda ax: lambda a: mg.cumprod(a, axis=ax))(axis),
                       shadow=(lambda ax: lambda a: np.cumprod(a, axis=ax))(axis), np=(lambda ax: lambda a: np.cumprod(a, axis=ax))(axis))
    for shape in ((3,), (2, 3), (2, 1, 3), ()):
        for axis in [None] + list(range(-len(shape), len(shape))):
            x = vals(shape, 5)
            for nm in ("cumsum", "cumprod"):
                yield dict(name="%s%s axis=%r" % (nm, shape, axis), op=nm, operands=[x], mg=(lambda nm, ax: lambda a: getattr(mg, nm)(a, axis=ax))(nm, axis),
                           shadow=(lambda nm, ax: lambda a: getattr(np, nm)(a, axis=ax))(nm, axis), np=(lambda nm, ax: lambda a: getattr(np, nm)(a, axis=ax))(nm, axis))
    # ties of max/min: the project tests that the gradient goes to exactly one of the tied entries? not documented -> not generated


def linalg_cases(tier):
    import mygrad as mg

    mm = [((3,), (3,)), ((2, 3), (3,)), ((3,), (3, 2)), ((2, 3), (3, 2)), ((2, 2, 3), (3, 2)), ((2, 3), (2, 3, 2)), ((2, 2, 3), (2, 3, 2)), ((1, 2, 3), (2, 3, 1)),
          ((2, 1, 2, 3), (3, 3, 1))]
    for sa, sb in mm:
        a, b = vals(sa, 1), vals(sb, 9)
        for kinds in (("t", "t"), ("t", "a"), ("a", "t")):
            yield dict(name="matmul%s%s %s" % (sa, sb, "".join(kinds)), op="matmul", operands=[a, b], kinds=kinds, mg=lambda x, y: mg.matmul(x, y), shadow=np.matmul, np=np.matmul)
    yield dict(name="matmul(2,2) same tensor twice", op="matmul", operands=[vals((2, 2), 3)], twice=True, mg=lambda x: mg.matmul(x, x), shadow=lambda x: np.matmul(x, x), np=lambda x: np.matmul(x, x))
    # einsum: every subscript with <= 2 operands, <= 2 labels each over {i, j}
    labs = ["i", "j", "ii", "ij", "ji", "jj"]
    dim = {"i": 2, "j": 3}
    seen = set()
    for nops in (1, 2):
        for ins in itertools.product(labs, repeat=nops):
            letters = sorted(set("".join(ins)))
            outs = [""] + ["".join(p) for r in range(1, len(letters) + 1) for p in itertools.permutations(letters, r)]
            for out in outs:
                sub = ",".join(ins) + "->" + out
                if sub in seen:
                    continue
                seen.add(sub)
                ops = [vals(tuple(dim[c] for c in s), 2 + 3 * k) for k, s in enumerate(ins)]
                for opt in (False, True):
                    yield dict(name="einsum %s optimize=%r" % (sub, opt), op="einsum", operands=ops,
                               mg=(lambda sub, opt: lambda *a: mg.einsum(sub, *a, optimize=opt))(sub, opt),
                               shadow=(lambda sub: lambda *a: np.einsum(sub, *a))(sub), np=(lambda sub, opt: lambda *a: np.einsum(sub, *a, optimize=opt))(sub, opt))
                if nops == 2 and ins[0] == ins[1]:
                    yield dict(name="einsum %s same tensor twice" % sub, op="einsum", operands=[ops[0]], twice=True,
                               mg=(lambda sub: lambda a: mg.einsum(sub, a, a))(sub), shadow=(lambda sub: lambda a: np.einsum(sub, a, a))(sub), np=(lambda sub: lambda a: np.einsum(sub, a, a))(sub))
    for sub, shapes in (("ijk,kl->ijl", ((2, 2, 3), (3, 2))), ("ij,jk,kl->il", ((2, 3), (3, 2), (2, 2))), ("...ij,...jk->...ik", ((2, 2, 3), (2, 3, 2))), ("i,i,i->", ((3,), (3,), (3,))),
                        ("bij,bj->bi", ((2, 2, 3), (2, 3))), ("ijk->kji", ((2, 3, 2),)), ("ii->i", ((3, 3),)), ("iij->j", ((2, 2, 3),))):
        ops = [vals(s, 1 + 4 * k) for k, s in enumerate(shapes)]
        yield dict(name="einsum %s" % sub, op="einsum", operands=ops, mg=(lambda sub: lambda *a: mg.einsum(sub, *a))(sub), shadow=(lambda sub: lambda *a: np.einsum(sub, *a))(sub),
                   np=(lambda sub: lambda *a: np.einsum(sub, *a))(sub))
    # norm
    from mygrad.linalg import norm

    for shape in ((3,), (2, 3)):
        for ord_ in (None, 1, 2, 3, 0.5, -1, np.inf, -np.inf):
            for axis in ([None, 0, -1] if len(shape) == 1 else [0, 1, -1]):  # (matrix norms are documented as unsupported)
                if len(shape) == 2 and axis is None and ord_ is not None:
                    continue
                for keepdims in (False, True):
                    x = vals(shape, 2)

                    def sh(a, ord_=ord_, axis=axis, keepdims=keepdims):
                        ab = c_abs(a)
                        ax = axis
                        if ord_ is None or ord_ == 2:
                            return np.sqrt(np.sum(a * a, axis=ax, keepdims=keepdims))
                        if ord_ == np.inf:
                            return c_amax(ab, ax, keepdims)
                        if ord_ == -np.inf:
                            return c_amin(ab, ax, keepdims)
                        return np.sum(ab ** ord_, axis=ax, keepdims=keepdims) ** (1.0 / ord_)

                    yield dict(name="norm%s ord=%r axis=%r keepdims=%r" % (shape, ord_, axis, keepdims), op="norm", operands=[x],
                               mg=(lambda o, ax, k: lambda a: norm(a, ord=o, axis=ax, keepdims=k))(ord_, axis, keepdims), shadow=sh,
                               np=(lambda o, ax, k: lambda a: np.linalg.norm(a, ord=o, axis=ax, keepdims=k))(ord_, axis, keepdims))


def special_value_cases(tier):
    import mygrad as mg
    from mygrad.linalg import norm

    # norms at exact zero entries: differentiable there for ord > 1 (derivative 0); ord=1 and the zero vector are
    # covered by the documented nan_to_num convention (0 instead of nan)
    for x in (np.array([0.0, 1.5, -2.0]), np.array([[0.0, 1.5, -2.0], [0.75, 0.0, 0.0]])):
        for ord_ in (1.25, 1.5, 1.75, 2, 2.5, 3, None):
            for axis in ((None,) if x.ndim == 1 else (0, 1, -1)):
                for keepdims in (False, True):
                    def sh(a, ord_=ord_, axis=axis, keepdims=keepdims):
                        o = 2 if ord_ is None else ord_
                        return np.sum(c_abs(a) ** o, axis=axis, keepdims=keepdims) ** (1.0 / o)

                    lanes_zero = np.any(np.sum(np.abs(x), axis=axis) == 0) if axis is not None else not np.any(x)
                    if lanes_zero:
                        continue  # the all-zero lane is a genuine kink
                    yield dict(name="norm with zero entries %s ord=%r axis=%r keepdims=%r" % (x.shape, ord_, axis, keepdims), op="norm", operands=[x], zero_where_input_zero=True,
                               mg=(lambda o, ax, k: lambda a: norm(a, ord=o, axis=ax, keepdims=k))(ord_, axis, keepdims), shadow=sh, np=None)
    # extreme but legal operand values: the derivative is finite and well defined, a naive formula overflows
    def st_lae(a, b):
        m = np.where(np.real(a) > np.real(b), a, b)
        d = np.where(np.real(a) > np.real(b), b - a, a - b)
        return m + np.log1p(np.exp(d))

    def st_lae2(a, b):
        return st_lae(a * np.log(2.0), b * np.log(2.0)) / np.log(2.0)

    for a, b in ((-1000.0, 0.0), (0.0, 800.0), (800.0, 0.0), (0.0, -1000.0), (1100.0, -1100.0), (-1100.0, 1100.0), (0.5, 0.25)):
        av, bv = np.array([a, 0.5]), np.array([b, -0.25])
        yield dict(name="logaddexp extreme (%g, %g)" % (a, b), op="logaddexp", operands=[av, bv], mg=lambda x, y: mg.logaddexp(x, y), shadow=st_lae, np=np.logaddexp)
        yield dict(name="logaddexp2 extreme (%g, %g)" % (a, b), op="logaddexp2", operands=[av, bv], mg=lambda x, y: mg.logaddexp2(x, y), shadow=st_lae2, np=np.logaddexp2)
    big = np.array([[500.0, -500.0, 0.0], [-800.0, -790.0, -795.0]])
    from mygrad.nnet.activations import logsoftmax, sigmoid, softmax
    from mygrad.nnet.losses import softmax_crossentropy

    def st_lsm(x):
        m = x[np.arange(x.shape[0]), np.argmax(x.real, axis=1)][:, None]
        return x - m - np.log(np.sum(np.exp(x - m), axis=1, keepdims=True))

    yield dict(name="logsoftmax large logits", op="logsoftmax", operands=[big], mg=lambda x: logsoftmax(x), shadow=st_lsm, np=None)
    yield dict(name="softmax large logits", op="softmax", operands=[big], mg=lambda x: softmax(x), shadow=lambda x: np.exp(st_lsm(x)), np=None)
    yield dict(name="softmax_crossentropy large logits", op="softmax_crossentropy", operands=[big], mg=lambda x: softmax_crossentropy(x, np.array([1, 2])),
               shadow=lambda x: -np.sum(st_lsm(x)[np.arange(2), np.array([1, 2])]) / 2, np=None)
    xs = np.array([30.0, -30.0, 700.0, -700.0, 0.0])
    yield dict(name="sigmoid saturated", op="sigmoid", operands=[xs], mg=lambda x: sigmoid(x),
               shadow=lambda x: np.where(np.real(x) >= 0, 1 / (1 + np.exp(-np.where(np.real(x) >= 0, x, 0))), np.exp(np.where(np.real(x) < 0, x, 0)) / (1 + np.exp(np.where(np.real(x) < 0, x, 0)))), np=None)
    yield dict(name="tanh saturated", op="tanh", operands=[np.array([20.0, -20.0, 400.0, 0.25])], mg=lambda x: mg.tanh(x), shadow=np.tanh, np=np.tanh)
    # operator forms of power with exponents for which Tensor.__pow__ has shortcuts (the exponent is an operand too)
    for e in (1.0, 2.0, 3.0, 0.5):
        for shape in ((3,), ()):
            xb = vals(shape, 1, "pos")
            yield dict(name="x ** p, 0-d tensor exponent %g, base %s" % (e, shape), op="power", operands=[xb, np.array(e)], mg=lambda x, p: x ** p, shadow=lambda x, p: x ** p, np=lambda x, p: x ** p)
            yield dict(name="p ** x, 0-d tensor base %g, exponent %s" % (e + 1, shape), op="power", operands=[np.array(e + 1.0), xb], mg=lambda p, x: p ** x, shadow=lambda p, x: p ** x, np=lambda p, x: p ** x)
            yield dict(name="x ** p, array exponent %g (scalar array operand)" % e, op="power", operands=[xb, np.array(e)], kinds=("t", "a"), mg=lambda x, p: x ** p, shadow=lambda x, p: x ** p, np=lambda x, p: x ** p)
    # power with a base that is exactly 0 and array exponents >= 1: d/dx x**y = y * x**(y-1) is 1 at y == 1 and 0 above
    xz = np.array([0.0, 0.0, 0.0, 1.5, 0.0])
    yz = np.array([1.0, 2.0, 3.0, 1.0, 1.5])
    yield dict(name="power, base exactly 0, array exponent", op="power", operands=[xz, yz], kinds=("t", "a"), mg=lambda x, y: mg.power(x, y), shadow=lambda x, y: x ** y, np=np.power)
    yield dict(name="x ** y, base exactly 0, array exponent (operator)", op="power", operands=[xz, yz], kinds=("t", "a"), mg=lambda x, y: x ** y, shadow=lambda x, y: x ** y, np=np.power)
    yield dict(name="x[:, None] ** arange(4), base with zeros", op="power", operands=[np.array([0.0, 2.0])], mg=lambda x: x[:, None] ** np.arange(4.0),
               shadow=lambda x: x[:, None] ** np.arange(4.0), np=None)
    # gradients that are tiny but not zero: compared *relatively* (case flag rel=True)
    from mygrad.nnet.losses import focal_loss

    tiny = [np.array([3e-162, 2.0]), np.array([1e-160, 3.0]), np.array([1.0, 0.5])]
    yield dict(name="multiply_sequence with a subnormal product", op="multiply_sequence", operands=tiny, mg=lambda a, b, c: mg.multiply_sequence(a, b, c),
               shadow=lambda a, b, c: a * b * c, np=None, rel=True, kinds=("t", "t", "a"))  # (the third operand's gradient a*b is itself subnormal: below the complex step's reach)
    yield dict(name="multiply with a subnormal product", op="multiply", operands=tiny[:2], mg=lambda a, b: mg.multiply(a, b), shadow=lambda a, b: a * b, np=None, rel=True)
    for gamma in (0.5, 0.25, 2.0):
        pnear = np.array([[1.0 - 2.0 ** -30, 2.0 ** -30], [0.75, 0.25]])
        yield dict(name="focal_loss gamma=%g, true-class probability within 1e-8 of 1" % gamma, op="focal_loss", operands=[pnear],
                   mg=(lambda g_: lambda p: focal_loss(p, np.array([0, 1]), alpha=1.0, gamma=g_))(gamma),
                   shadow=(lambda g_: lambda p: np.stack([-(1 - p[0, 0]) ** g_ * np.log(p[0, 0]), -(1 - p[1, 1]) ** g_ * np.log(p[1, 1])]))(gamma), np=None, rel=True)
    # where= masks in every container NumPy accepts (list, tuple, tensor, NumPy bool scalar, 0-d array), for a unary and two binary ufuncs
    mvals = [True, False, True]
    mkinds = [("list", lambda: list(mvals)), ("tuple", lambda: tuple(mvals)), ("tensor", lambda: mg.tensor(mvals)), ("bool array", lambda: np.array(mvals)),
              ("np.bool_ True", lambda: np.bool_(True)), ("np.bool_ False", lambda: np.bool_(False)),
              ("0-d array False", lambda: np.array(False)), ("python False", lambda: False)]
    xm, ym = vals((3,), 1, "pos"), vals((3,), 8)
    for label, mk in mkinds:
        marr = np.broadcast_to(np.asarray(mk().data if hasattr(mk(), "creator") else mk()).astype(bool), (3,))
        yield dict(name="sqrt where=<%s>" % label, op="sqrt", operands=[xm], mg=(lambda mk: lambda x: mg.sqrt(x, where=mk()))(mk),
                   shadow=(lambda marr: lambda x: np.where(marr, np.sqrt(x), 0.0))(marr), np=None, mask=marr)
        for nm in ("add", "multiply"):
            yield dict(name="%s where=<%s>" % (nm, label), op=nm, operands=[xm, ym], mg=(lambda mk, nm: lambda x, y: getattr(mg, nm)(x, y, where=mk()))(mk, nm),
                       shadow=(lambda marr, nm: lambda x, y: np.where(marr, getattr(np, nm)(x, y), 0.0))(marr, nm), np=None, mask=marr)
    # where: every accepted kind of condition
    a, b = vals((2, 3), 1), vals((2, 3), 7)
    conds = [("bool array", np.array([[True, False, True], [False, False, True]])), ("int 0/1 array", np.array([[1, 0, 1], [0, 0, 1]])),
             ("general int array", np.array([[2, 0, -1], [0, 0, 7]])), ("uint8 array", np.array([[1, 0, 1], [0, 0, 1]], dtype=np.uint8)),
             ("float array", np.array([[1.0, 0.0, 0.5], [0.0, 0.0, 2.0]])), ("nested list", [[True, False, True], [False, False, True]]),
             ("broadcast (3,)", np.array([1, 0, 1])), ("0-d True", np.array(True)), ("0-d int 0", np.array(0)), ("python bool", False)]
    for label, c in conds:
        cb = np.asarray(c).astype(bool)
        yield dict(name="where cond=%s" % label, op="where", operands=[a, b], mg=(lambda c: lambda x, y: mg.where(c, x, y))(c),
                   shadow=(lambda cb: lambda x, y: np.where(cb, x, y))(cb), np=(lambda c: lambda x, y: np.where(c, x, y))(c))
        yield dict(name="where cond=%s (tensor condition)" % label, op="where", operands=[a, b], mg=(lambda c: lambda x, y: mg.where(mg.tensor(c), x, y))(c),
                   shadow=(lambda cb: lambda x, y: np.where(cb, x, y))(cb), np=None)


INDEXES = [
    ("0", lambda: 0), ("-1", lambda: -1), ("1:", lambda: slice(1, None)), ("::-1", lambda: slice(None, None, -1)), ("::2", lambda: slice(None, None, 2)),
    ("-1::-2", lambda: slice(-1, None, -2)), ("...", lambda: ...), ("None", lambda: None), ("..., None", lambda: (..., None)), ("[0, 0, 1]", lambda: [0, 0, 1]),
    ("array([1, 0])", lambda: np.array([1, 0])), ("intp array with negative entries", lambda: np.array([0, -1, 1, -1, -2, 0])),
    ("list with negative entries", lambda: [0, -1, -1]), ("int32 [1, 1]", lambda: np.array([1, 1], dtype=np.int32)), ("mask", lambda: "mask"), ("1:1", lambda: slice(1, 1)),
    ("[]", lambda: np.array([], dtype=int)), ("(0, 1)", lambda: (0, 1)), ("(:, [0, 2])", lambda: (slice(None), [0, 2])), ("([0, 1], [1, 1])", lambda: ([0, 1], [1, 1])),
    ("(1, ...)", lambda: (1, ...)), ("(None, 0)", lambda: (None, 0)), ("([1, 0], slice)", lambda: ([1, 0], slice(None, 2))),
]


def index_cases(tier):
    import mygrad as mg

    for shape in ((3,), (2, 3)):
        x = vals(shape, 3)
        for label, mk in INDEXES:
            idx = mk()
            if isinstance(idx, str):
                idx = (np.arange(x.size).reshape(shape) % 2 == 0)
            try:
                ref = x[idx]
            except Exception:
                continue
            yield dict(name="getitem%s[%s]" % (shape, label), op="getitem", operands=[x], index=idx, mg=(lambda i: lambda a: a[i])(idx), shadow=(lambda i: lambda a: a[i])(idx),
                       np=(lambda i: lambda a: a[i])(idx))
            # set-item: value kinds
            region = np.shape(ref)
            vkinds = [("scalar", ()), ("same", region)]
            if len(region) >= 1 and region[-1] > 1:
                vkinds.append(("bcast", region[-1:]))
            if len(region) >= 1:
                vkinds.append(("lead1", (1,) + tuple(region)))
            for vk, vshape in vkinds:
                v = vals(vshape, 11)
                try:
                    x.copy()[idx] = v
                except Exception:
                    continue  # NumPy itself rejects this assignment

                def sh(a, b, idx=idx):
                    out = np.array(a, dtype=np.result_type(a, b, np.float64) if not (np.iscomplexobj(a) or np.iscomplexobj(b)) else np.complex128)
                    out[idx] = b
                    return out

                def mgf(a, b, idx=idx):
                    t = +a
                    t[idx] = b
                    return t

                yield dict(name="setitem%s[%s] = %s%s" % (shape, label, vk, vshape), op="setitem", operands=[x, v], index=idx, mg=mgf, shadow=sh, np=None)


def manip_cases(tier):
    import mygrad as mg

    x23, x213, x3, x0d = vals((2, 3), 1), vals((2, 1, 3), 2), vals((3,), 3), vals((), 4)
    table = [
        ("reshape(2,3)->(3,2)", [x23], lambda a: mg.reshape(a, (3, 2)), lambda a: np.reshape(a, (3, 2))),
        ("reshape(2,3)->(-1,)", [x23], lambda a: a.reshape(-1), lambda a: a.reshape(-1)),
        ("reshape T (copy)", [layout(x23, "T")], lambda a: a.reshape(6), lambda a: a.reshape(6)),
        ("reshape 0-d -> (1,1)", [x0d], lambda a: mg.reshape(a, (1, 1)), lambda a: np.reshape(a, (1, 1))),
        ("squeeze", [x213], lambda a: mg.squeeze(a), lambda a: np.squeeze(a)),
        ("squeeze axis=1", [x213], lambda a: mg.squeeze(a, axis=1), lambda a: np.squeeze(a, axis=1)),
        ("squeeze axis=-2", [x213], lambda a: a.squeeze(-2), lambda a: a.squeeze(-2)),
        ("expand_dims 0", [x3], lambda a: mg.expand_dims(a, 0), lambda a: np.expand_dims(a, 0)),
        ("expand_dims -1", [x23], lambda a: mg.expand_dims(a, -1), lambda a: np.expand_dims(a, -1)),
        ("ravel", [x23], lambda a: mg.ravel(a), lambda a: np.ravel(a)),
        ("ravel T", [layout(x23, "T")], lambda a: a.ravel(), lambda a: a.ravel()),
        ("flatten", [x23], lambda a: a.flatten(), lambda a: a.flatten()),
        ("broadcast_to (3,)->(2,3)", [x3], lambda a: mg.broadcast_to(a, (2, 3)), lambda a: np.broadcast_to(a, (2, 3))),
        ("broadcast_to ()->(2,2)", [x0d], lambda a: mg.broadcast_to(a, (2, 2)), lambda a: np.broadcast_to(a, (2, 2))),
        # stretched length-1 axes (alone and together with prepended axes)
        ("broadcast_to (3,1)->(3,4)", [vals((3, 1), 2)], lambda a: mg.broadcast_to(a, (3, 4)), lambda a: np.broadcast_to(a, (3, 4))),
        ("broadcast_to (1,3)->(2,3)", [vals((1, 3), 4)], lambda a: mg.broadcast_to(a, (2, 3)), lambda a: np.broadcast_to(a, (2, 3))),
        ("broadcast_to (3,1)->(2,3,4)", [vals((3, 1), 6)], lambda a: mg.broadcast_to(a, (2, 3, 4)), lambda a: np.broadcast_to(a, (2, 3, 4))),
        ("broadcast_to (2,1,3)->(2,2,3)", [vals((2, 1, 3), 1)], lambda a: mg.broadcast_to(a, (2, 2, 3)), lambda a: np.broadcast_to(a, (2, 2, 3))),
        ("atleast_1d 0-d", [x0d], lambda a: mg.atleast_1d(a), lambda a: np.atleast_1d(a)),
        ("atleast_2d (3,)", [x3], lambda a: mg.atleast_2d(a), lambda a: np.atleast_2d(a)),
        ("atleast_3d (2,3)", [x23], lambda a: mg.atleast_3d(a), lambda a: np.atleast_3d(a)),
        ("transpose", [x213], lambda a: mg.transpose(a), lambda a: np.transpose(a)),
        ("transpose (1,2,0)", [x213], lambda a: mg.transpose(a, (1, 2, 0)), lambda a: np.transpose(a, (1, 2, 0))),
        ("transpose (-1,0,1)", [x213], lambda a: a.transpose(-1, 0, 1), lambda a: a.transpose(-1, 0, 1)),
        ("T", [x23], lambda a: a.T, lambda a: a.T),
        ("moveaxis 0->-1", [x213], lambda a: mg.moveaxis(a, 0, -1), lambda a: np.moveaxis(a, 0, -1)),
        ("moveaxis (0,1)->(2,0)", [x213], lambda a: mg.moveaxis(a, (0, 1), (2, 0)), lambda a: np.moveaxis(a, (0, 1), (2, 0))),
        ("swapaxes 0,2", [x213], lambda a: mg.swapaxes(a, 0, 2), lambda a: np.swapaxes(a, 0, 2)),
        ("swapaxes -1,0", [x23], lambda a: a.swapaxes(-1, 0), lambda a: a.swapaxes(-1, 0)),
        ("roll 1", [x23], lambda a: mg.roll(a, 1), lambda a: np.roll(a, 1)),
        ("roll -2 axis=1", [x23], lambda a: mg.roll(a, -2, axis=1), lambda a: np.roll(a, -2, axis=1)),
        ("roll (1,2) axis=(0,1)", [x23], lambda a: mg.roll(a, (1, 2), axis=(0, 1)), lambda a: np.roll(a, (1, 2), axis=(0, 1))),
        ("repeat 2", [x23], lambda a: mg.repeat(a, 2), lambda a: np.repeat(a, 2)),
        ("repeat 2 axis=0", [x23], lambda a: mg.repeat(a, 2, axis=0), lambda a: np.repeat(a, 2, axis=0)),
        ("repeat [1,0,2] axis=-1", [x23], lambda a: mg.repeat(a, [1, 0, 2], axis=-1), lambda a: np.repeat(a, [1, 0, 2], axis=-1)),
        ("repeat 0", [x3], lambda a: mg.repeat(a, 0), lambda a: np.repeat(a, 0)),
        ("repeat 0-d x3", [x0d], lambda a: mg.repeat(a, 3), lambda a: np.repeat(a, 3)),
        ("clip both", [x23], lambda a: mg.clip(a, -0.5, 0.75), lambda a: np.where(a.real < -0.5, -0.5, np.where(a.real > 0.75, 0.75, a))),
        ("clip min only", [x23], lambda a: mg.clip(a, -0.5, None), lambda a: np.where(a.real < -0.5, -0.5, a)),
        ("clip max only", [x23], lambda a: mg.clip(a, None, 0.75), lambda a: np.where(a.real > 0.75, 0.75, a)),
        ("abs nan_to_num=False", [x23], lambda a: mg.abs(a, nan_to_num=False), c_abs),
        ("sinc", [x23], lambda a: mg.sinc(a), lambda a: np.sin(np.pi * a) / (np.pi * a)),
        ("cot", [vals((3,), 1, "small")], lambda a: mg.cot(a), lambda a: 1 / np.tan(a)),
        ("sec", [vals((3,), 1, "small")], lambda a: mg.sec(a), lambda a: 1 / np.cos(a)),
        ("csc", [vals((3,), 1, "small")], lambda a: mg.csc(a), lambda a: 1 / np.sin(a)),
        ("coth", [vals((3,), 1, "small")], lambda a: mg.coth(a), lambda a: 1 / np.tanh(a)),
        ("sech", [x3], lambda a: mg.sech(a), lambda a: 1 / np.cosh(a)),
        ("csch", [vals((3,), 1, "small")], lambda a: mg.csch(a), lambda a: 1 / np.sinh(a)),
        ("arccot", [vals((3,), 1, "small")], lambda a: mg.arccot(a), lambda a: np.arctan(1 / a)),
        ("arcsec", [vals((3,), 1, "big")], lambda a: mg.arcsec(a), lambda a: np.arccos(1 / a)),
        ("arccsc", [vals((3,), 1, "big")], lambda a: mg.arccsc(a), lambda a: np.arcsin(1 / a)),
        ("arccsch", [vals((3,), 1, "small")], lambda a: mg.arccsch(a), lambda a: np.arcsinh(1 / a)),
        ("arccoth", [vals((3,), 1, "big")], lambda a: mg.arccoth(a), lambda a: np.arctanh(1 / a)),
    ]
    for name, ops, f_mg, f_sh in table:
        yield dict(name=name, op=name.split()[0], operands=ops, mg=f_mg, shadow=f_sh, np=None)
    # joining
    for n in (1, 2, 3):
        ops = [vals((2, 3), 1 + 4 * k) for k in range(n)]
        for axis in (0, 1, -1, None):
            yield dict(name="concatenate x%d axis=%r" % (n, axis), op="concatenate", operands=ops, mg=(lambda ax: lambda *a: mg.concatenate(a, axis=ax))(axis),
                       shadow=(lambda ax: lambda *a: np.concatenate(a, axis=ax))(axis), np=(lambda ax: lambda *a: np.concatenate(a, axis=ax))(axis))
        for axis in (0, 1, -1, 2):
            yield dict(name="stack x%d axis=%r" % (n, axis), op="stack", operands=ops, mg=(lambda ax: lambda *a: mg.stack(a, axis=ax))(axis),
                       shadow=(lambda ax: lambda *a: np.stack(a, axis=ax))(axis), np=(lambda ax: lambda *a: np.stack(a, axis=ax))(axis))
    yield dict(name="concatenate same tensor twice", op="concatenate", operands=[x3], twice=True, mg=lambda a: mg.concatenate([a, a]), shadow=lambda a: np.concatenate([a, a]), np=lambda a: np.concatenate([a, a]))
    # where
    m = np.array([[True, False, True], [False, False, True]])
    for sa, sb in (((2, 3), (2, 3)), ((2, 3), (3,)), ((), (2, 3)), ((2, 3), ())):
        a, b = vals(sa, 1), vals(sb, 7)
        yield dict(name="where%s%s" % (sa, sb), op="where", operands=[a, b], mg=lambda x, y: mg.where(m, x, y), shadow=lambda x, y: np.where(m, x, y), np=lambda x, y: np.where(m, x, y))
    yield dict(name="where same tensor twice", op="where", operands=[x23], twice=True, mg=lambda a: mg.where(m, a, a), shadow=lambda a: np.where(m, a, a), np=lambda a: np.where(m, a, a))
    # sequences
    for n in (2, 3, 4):
        ops = [vals((2, 3), 2 + 3 * k) for k in range(n)]
        yield dict(name="add_sequence x%d" % n, op="add_sequence", operands=ops, mg=lambda *a: mg.add_sequence(*a), shadow=lambda *a: sum(a[1:], a[0]), np=None)
        yield dict(name="multiply_sequence x%d" % n, op="multiply_sequence", operands=ops, mg=lambda *a: mg.multiply_sequence(*a), shadow=lambda *a: np.prod(np.stack(a), axis=0), np=None)
        z = [o.copy() for o in ops]
        z[0].reshape(-1)[1] = 0.0
        yield dict(name="multiply_sequence x%d one zero" % n, op="multiply_sequence", operands=z, mg=lambda *a: mg.multiply_sequence(*a), shadow=lambda *a: np.prod(np.stack(a), axis=0), np=None)
        z2 = [o.copy() for o in z]
        z2[1].reshape(-1)[1] = 0.0
        yield dict(name="multiply_sequence x%d two zeros" % n, op="multiply_sequence", operands=z2, mg=lambda *a: mg.multiply_sequence(*a), shadow=lambda *a: np.prod(np.stack(a), axis=0), np=None)
    yield dict(name="multiply_sequence repeated tensor", op="multiply_sequence", operands=[x23], twice=True, mg=lambda a: mg.multiply_sequence(a, a, a), shadow=lambda a: a * a * a, np=None)
    yield dict(name="add_sequence broadcast", op="add_sequence", operands=[x23, x3, x0d], mg=lambda *a: mg.add_sequence(*a), shadow=lambda *a: a[0] + a[1] + a[2], np=None)
    yield dict(name="multiply_sequence broadcast", op="multiply_sequence", operands=[x23, x3, x0d], mg=lambda *a: mg.multiply_sequence(*a), shadow=lambda *a: a[0] * a[1] * a[2], np=None)
    yield dict(name="multi_matmul x3", op="multi_matmul", operands=[vals((2, 3), 1), vals((3, 2), 5), vals((2, 2), 9)], mg=lambda *a: mg.multi_matmul(a), shadow=lambda *a: a[0] @ a[1] @ a[2], np=None)


SWEEP1 = [1e-6, 1e-3, 0.05, 0.3, 0.9, 1.1, 3.0, 12.0, 50.0, 300.0, 720.0]
SWEEP2 = [-700.0, -30.0, -2.5, -0.4, -1e-3, 1e-3, 0.4, 2.5, 30.0, 700.0]


def _cs_elementwise(shadow, arrays, which):
    """derivative of an elementwise function with respect to operand `which`, by complex step (diagonal Jacobian)"""
    pert = [np.array(a, dtype=np.complex128) if j == which else a for j, a in enumerate(arrays)]
    pert[which] = pert[which] + 1e-20j
    with np.errstate(all="ignore"):
        return np.imag(np.asarray(shadow(*pert))) / 1e-20


def value_sweep_cases(tier):
    """every elementwise unary function of the catalogue over a grid of magnitudes of both signs, and the binary ufuncs over a grid
    of operand pairs; a grid point is kept iff the functional model and its derivative(s) are finite there (the function is
    defined and differentiable); one case per function with all kept points"""
    import warnings

    done = set()
    grid1 = np.array([s * v for v in SWEEP1 for s in (1.0, -1.0)])
    for c in itertools.chain(unary_ufunc_cases(tier), manip_cases(tier)):
        if c["op"] in done or len(c["operands"]) != 1 or c.get("mask") is not None or c.get("dtype") or c.get("conv"):
            continue
        with warnings.catch_warnings(), np.errstate(all="ignore"):
            warnings.simplefilter("ignore")
            try:
                f = np.asarray(c["shadow"](grid1))
            except Exception:
                continue
            if f.shape != grid1.shape:
                continue  # not elementwise
            d = _cs_elementwise(c["shadow"], [grid1], 0)
        done.add(c["op"])
        keep = np.isfinite(np.real(f)) & (np.imag(f) == 0 if np.iscomplexobj(f) else True) & np.isfinite(d) & (np.abs(f) < 1e300) & (np.abs(d) < 1e300)
        if c["op"] in ("absolute", "abs"):
            keep &= grid1 != 0
        if not keep.any():
            continue
        yield dict(name="%s over the value grid (%d points)" % (c["op"], int(keep.sum())), op=c["op"], operands=[grid1[keep].copy()], mg=c["mg"], shadow=c["shadow"], np=c.get("np"), sweep=True)
    # elementwise nnet activations (complex-safe models written out here)
    from mygrad.nnet import activations as NA

    def _elu(alpha):
        return lambda x: np.where(np.real(x) > 0, x, alpha * (np.exp(np.where(np.real(x) > 0, 0, x)) - 1))

    acts = [
        ("relu", lambda x: NA.relu(x), lambda x: np.where(np.real(x) > 0, x, 0.0)),
        ("leaky_relu(0.125)", lambda x: NA.leaky_relu(x, slope=0.125), lambda x: np.where(np.real(x) > 0, x, 0.125 * x)),
        ("elu(0.5)", lambda x: NA.elu(x, alpha=0.5), _elu(0.5)),
        ("selu", lambda x: NA.selu(x), lambda x: 1.0507009873554805 * _elu(1.6732632423543772)(x)),
        ("soft_sign", lambda x: NA.soft_sign(x), lambda x: x / (1 + c_abs(x))),
        ("hard_tanh(-1,1)", lambda x: NA.hard_tanh(x, lower_bound=-1.0, upper_bound=1.0), lambda x: np.where(np.real(x) < -1, -1.0, np.where(np.real(x) > 1, 1.0, x))),
        ("sigmoid", lambda x: NA.sigmoid(x), lambda x: np.where(np.real(x) >= 0, 1 / (1 + np.exp(-np.where(np.real(x) >= 0, x, 0))),
                                                             np.exp(np.where(np.real(x) < 0, x, 0)) / (1 + np.exp(np.where(np.real(x) < 0, x, 0))))),
        ("nnet.tanh", lambda x: NA.tanh(x), np.tanh),
    ]
    for name, mgf, sh in acts:
        with warnings.catch_warnings(), np.errstate(all="ignore"):
            warnings.simplefilter("ignore")
            f = np.asarray(sh(grid1))
            d = _cs_elementwise(sh, [grid1], 0)
        keep = np.isfinite(np.real(f)) & np.isfinite(d)
        yield dict(name="%s over the value grid (%d points)" % (name, int(keep.sum())), op=name.split("(")[0], operands=[grid1[keep].copy()], mg=mgf, shadow=sh, np=None, sweep=True)
    import mygrad.tensor_base as tb

    A = np.repeat(SWEEP2, len(SWEEP2)).astype(float)
    B = np.tile(SWEEP2, len(SWEEP2)).astype(float)
    for uf in sorted(tb._REGISTERED_UFUNC, key=lambda u: u.__name__):
        if uf.nin != 2 or uf.__name__ == "matmul":
            continue
        name = uf.__name__
        mgf = tb._REGISTERED_UFUNC[uf]
        sh = {"logaddexp": _st_lae, "logaddexp2": _st_lae2}.get(name, BINARY_SHADOW.get(name, uf))
        with warnings.catch_warnings(), np.errstate(all="ignore"):
            warnings.simplefilter("ignore")
            f = np.asarray(sh(A, B))
            da, db = _cs_elementwise(sh, [A, B], 0), _cs_elementwise(sh, [A, B], 1)
            fr = np.asarray(uf(A, B))
        keep = np.isfinite(np.real(f)) & np.isfinite(da) & np.isfinite(db) & (np.abs(f) < 1e300) & (np.abs(da) < 1e300) & (np.abs(db) < 1e300) & np.isfinite(fr)
        if name in ("maximum", "minimum"):
            keep &= A != B
        if name == "power":
            keep &= A > 0  # d/dy x**y is real only for x > 0
        if not keep.any():
            continue
        yield dict(name="%s over the pair grid (%d points)" % (name, int(keep.sum())), op=name, operands=[A[keep].copy(), B[keep].copy()],
                   mg=(lambda mgf: lambda x, y: mgf(x, y))(mgf), shadow=sh, np=uf, sweep=True)


def _st_lae(a, b):
    m = np.where(np.real(a) > np.real(b), a, b)
    d = np.where(np.real(a) > np.real(b), b - a, a - b)
    return m + np.log1p(np.exp(d))


def _st_lae2(a, b):
    return _st_lae(a * np.log(2.0), b * np.log(2.0)) / np.log(2.0)


def all_cases(tier):
    return itertools.chain(unary_ufunc_cases(tier), binary_ufunc_cases(tier), sequential_cases(tier), linalg_cases(tier), index_cases(tier), manip_cases(tier),
                           special_value_cases(tier), value_sweep_cases(tier))
